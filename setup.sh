#!/bin/bash
# Cold build of everything the checks need, offline, from /repo's working tree. Idempotent.
set -u
cd "$(dirname "$0")"
export CARGO_NET_OFFLINE=true
unset RUSTFLAGS
export CARGO_TARGET_DIR=/verif/target
mkdir -p /verif/target /verif/evidence /verif/work
rc=0
# keep the ext workspace lock file in step with /repo (only if missing)
[ -f harness/ext/Cargo.lock ] || cp /repo/Cargo.lock harness/ext/Cargo.lock
( cd harness/ext && CARGO_TARGET_DIR=/verif/target/ext cargo build --offline --workspace ) || rc=1
for crate in astria-sequencer astria-conductor astria-sequencer-relayer astria-composer; do
  if grep -q '^verif' /repo/crates/$crate/Cargo.toml; then
    ( cd /repo && cargo test --offline --no-run --lib -p $crate --features verif ) || rc=1
  fi
done
exit $rc
