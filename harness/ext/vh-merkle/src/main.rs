//! C08 harness: drives the real `astria_merkle` public API and records what it observed as JSON lines.
//!
//! usage: vh-merkle <mode> <seed> <out.jsonl> [key=value ...]
//!   modes: exhaustive (max=<leaves>)  sampled (count=<n>)  adversarial (count=<n>)
//!
//! The reference (RFC 6962 MTH, section 2.1) is the 15-line recursion below, written against the RFC text and
//! sharing nothing with the flat in-order layout of the crate. The harness records; /verif/lib/checkers/c08.py
//! judges. Panics of the code under test are caught and recorded with their location.

use std::{
    cell::RefCell,
    fmt::Write as _,
    io::Write as _,
    panic::{catch_unwind, AssertUnwindSafe},
};

use astria_merkle::{Proof, Tree};
use sha2::{Digest as _, Sha256};

// ---------------------------------------------------------------- reference: RFC 6962 section 2.1
fn ref_leaf(d: &[u8]) -> [u8; 32] {
    let mut h = Sha256::new();
    h.update([0u8]);
    h.update(d);
    h.finalize().into()
}
fn ref_node(l: &[u8; 32], r: &[u8; 32]) -> [u8; 32] {
    let mut h = Sha256::new();
    h.update([1u8]);
    h.update(l);
    h.update(r);
    h.finalize().into()
}
fn split_point(n: usize) -> usize {
    // largest power of two strictly less than n (n >= 2)
    let mut k = 1;
    while k * 2 < n {
        k *= 2;
    }
    k
}
fn ref_mth(leaves: &[Vec<u8>]) -> [u8; 32] {
    match leaves.len() {
        0 => Sha256::digest([]).into(),
        1 => ref_leaf(&leaves[0]),
        n => {
            let k = split_point(n);
            ref_node(&ref_mth(&leaves[..k]), &ref_mth(&leaves[k..]))
        }
    }
}
/// RFC 6962 2.1.1 PATH(m, D[n]) (leaf-to-root order).
fn ref_path(m: usize, leaves: &[Vec<u8>]) -> Vec<[u8; 32]> {
    let n = leaves.len();
    if n <= 1 {
        return vec![];
    }
    let k = split_point(n);
    if m < k {
        let mut p = ref_path(m, &leaves[..k]);
        p.push(ref_mth(&leaves[k..]));
        p
    } else {
        let mut p = ref_path(m - k, &leaves[k..]);
        p.push(ref_mth(&leaves[..k]));
        p
    }
}

// ---------------------------------------------------------------- prng (splitmix64)
struct Rng(u64);
impl Rng {
    fn next(&mut self) -> u64 {
        self.0 = self.0.wrapping_add(0x9E37_79B9_7F4A_7C15);
        let mut z = self.0;
        z = (z ^ (z >> 30)).wrapping_mul(0xBF58_476D_1CE4_E5B9);
        z = (z ^ (z >> 27)).wrapping_mul(0x94D0_49BB_1331_11EB);
        z ^ (z >> 31)
    }
    fn below(&mut self, n: usize) -> usize {
        if n == 0 { 0 } else { (self.next() % n as u64) as usize }
    }
    fn bytes(&mut self, n: usize) -> Vec<u8> {
        (0..n).map(|_| self.next() as u8).collect()
    }
}

// ---------------------------------------------------------------- panic monitor
thread_local! { static LAST_PANIC: RefCell<Option<String>> = const { RefCell::new(None) }; }
fn install_panic_hook() {
    std::panic::set_hook(Box::new(|info| {
        let loc = info.location().map(|l| format!("{}:{}", l.file(), l.line())).unwrap_or_default();
        let msg = info
            .payload()
            .downcast_ref::<&str>()
            .map(|s| (*s).to_string())
            .or_else(|| info.payload().downcast_ref::<String>().cloned())
            .unwrap_or_default();
        LAST_PANIC.with(|p| *p.borrow_mut() = Some(format!("{loc} {msg}")));
    }));
}
fn guarded<T>(f: impl FnOnce() -> T) -> Result<T, String> {
    match catch_unwind(AssertUnwindSafe(f)) {
        Ok(v) => Ok(v),
        Err(_) => Err(LAST_PANIC.with(|p| p.borrow_mut().take()).unwrap_or_else(|| "?".into())),
    }
}

// ---------------------------------------------------------------- log
struct Log {
    out: Box<dyn std::io::Write>,
    seq: u64,
}
fn hex(b: &[u8]) -> String {
    let mut s = String::with_capacity(b.len() * 2);
    for x in b {
        write!(s, "{x:02x}").unwrap();
    }
    s
}
fn esc(s: &str) -> String {
    s.replace('\\', "\\\\").replace('"', "\\\"").replace('\n', " ")
}
impl Log {
    fn ev(&mut self, body: &str) {
        self.seq += 1;
        writeln!(self.out, "{{\"seq\":{},{}}}", self.seq, body).unwrap();
    }
}

// ---------------------------------------------------------------- workloads
fn gen_leaves(rng: &mut Rng, n: usize) -> Vec<Vec<u8>> {
    (0..n)
        .map(|i| match rng.below(8) {
            0 => vec![],                                   // empty leaf
            1 => {
                let mut v = vec![0u8];                      // looks like a prefixed leaf
                v.extend(rng.bytes(31));
                v
            }
            2 => {
                let mut v = vec![1u8];                      // looks like a prefixed inner node
                v.extend(rng.bytes(64));
                v
            }
            3 => rng.bytes(64),                            // left||right shaped
            4 if i > 0 => vec![0xAA; 7],                   // duplicates of each other
            _ => {
                let l = 1 + rng.below(40);
                rng.bytes(l)
            }
        })
        .collect()
}

fn build_tree(leaves: &[Vec<u8>]) -> Tree {
    let mut t = Tree::new();
    for l in leaves {
        t.push(l);
    }
    t
}

#[derive(Default)]
struct Counts {
    proofs_ok: u64,
    mut_leaf: u64,
    mut_path: u64,
    mut_root: u64,
    mut_other_leaf: u64,
    mut_drop_elem: u64,
    mut_swap_elem: u64,
    domain_sep: u64,
    path_eq_rfc: u64,
}

/// All checks for one (leaves, index). Returns false if something was reported.
fn check_index(log: &mut Log, mode: &str, leaves: &[Vec<u8>], tree: &Tree, root: [u8; 32], i: usize,
               rng: &mut Rng, c: &mut Counts, all_positions: bool) {
    let n = leaves.len();
    let ctx = |what: &str| format!("\"mode\":\"{mode}\",\"leaves\":{n},\"index\":{i},\"what\":\"{what}\"");
    let proof = match guarded(|| tree.construct_proof(i)) {
        Ok(Some(p)) => p,
        Ok(None) => {
            log.ev(&format!("\"kind\":\"fail\",\"class\":\"no_proof_for_leaf_in_tree\",{}", ctx("construct_proof")));
            return;
        }
        Err(p) => {
            log.ev(&format!("\"kind\":\"panic\",\"entry\":\"construct_proof\",\"class\":\"honest\",\"loc\":\"{}\",{}", esc(&p), ctx("construct_proof")));
            return;
        }
    };
    let leaf = &leaves[i];
    match guarded(|| proof.verify(leaf, root)) {
        Ok(true) => c.proofs_ok += 1,
        Ok(false) => log.ev(&format!("\"kind\":\"fail\",\"class\":\"honest_proof_rejected\",{}", ctx("verify"))),
        Err(p) => log.ev(&format!("\"kind\":\"panic\",\"entry\":\"verify\",\"class\":\"honest\",\"loc\":\"{}\",{}", esc(&p), ctx("verify"))),
    }
    // observation (not judged): does the audit path equal RFC 6962 PATH?
    if n <= 512 {
        let rp: Vec<u8> = ref_path(i, leaves).concat();
        if rp == proof.audit_path() {
            c.path_eq_rfc += 1;
        } else {
            log.ev(&format!("\"kind\":\"obs\",\"class\":\"audit_path_differs_from_rfc_path\",{}", ctx("construct_proof")));
        }
    }
    let path = proof.audit_path().to_vec();
    let (li, ts) = (proof.leaf_index(), proof.tree_size().get());
    let mk = |p: Vec<u8>| Proof::unchecked().audit_path(p).leaf_index(li).tree_size(ts).try_into_proof();
    let mut expect_false = |log: &mut Log, class: &str, r: Result<bool, String>, detail: String| match r {
        Ok(false) => {}
        Ok(true) => log.ev(&format!("\"kind\":\"fail\",\"class\":\"mutant_accepted:{class}\",\"detail\":\"{detail}\",{}", ctx("verify"))),
        Err(p) => log.ev(&format!("\"kind\":\"panic\",\"entry\":\"verify\",\"class\":\"mutant:{class}\",\"loc\":\"{}\",\"detail\":\"{detail}\",{}", esc(&p), ctx("verify"))),
    };
    // leaf mutations: one bit per byte position (all positions or a sample), plus extend/truncate
    let positions: Vec<usize> = if all_positions || leaf.len() <= 4 { (0..leaf.len()).collect() } else { (0..4).map(|_| rng.below(leaf.len())).collect() };
    for pos in positions {
        let mut l2 = leaf.clone();
        l2[pos] ^= 1 << rng.below(8);
        c.mut_leaf += 1;
        expect_false(log, "leaf_bit", guarded(|| proof.verify(&l2, root)), format!("pos={pos}"));
    }
    {
        let mut l2 = leaf.clone();
        l2.push(0);
        c.mut_leaf += 1;
        expect_false(log, "leaf_extended", guarded(|| proof.verify(&l2, root)), String::new());
        if !leaf.is_empty() {
            let l3 = &leaf[..leaf.len() - 1];
            c.mut_leaf += 1;
            expect_false(log, "leaf_truncated", guarded(|| proof.verify(l3, root)), String::new());
        }
    }
    // root mutations
    let rpos: Vec<usize> = if all_positions { (0..32).collect() } else { (0..3).map(|_| rng.below(32)).collect() };
    for pos in rpos {
        let mut r2 = root;
        r2[pos] ^= 1 << rng.below(8);
        c.mut_root += 1;
        expect_false(log, "root_bit", guarded(|| proof.verify(leaf, r2)), format!("pos={pos}"));
    }
    // path mutations
    let ppos: Vec<usize> = if all_positions || path.len() <= 4 { (0..path.len()).collect() } else { (0..6).map(|_| rng.below(path.len())).collect() };
    for pos in ppos {
        let mut p2 = path.clone();
        p2[pos] ^= 1 << rng.below(8);
        c.mut_path += 1;
        match mk(p2) {
            Ok(pr) => expect_false(log, "path_bit", guarded(|| pr.verify(leaf, root)), format!("pos={pos}")),
            Err(_) => log.ev(&format!("\"kind\":\"fail\",\"class\":\"same_shape_proof_refused\",{}", ctx("try_into_proof"))),
        }
    }
    let elems = path.len() / 32;
    if elems >= 1 {
        // drop one element (every element)
        for e in 0..elems {
            let mut p2 = path.clone();
            p2.drain(e * 32..(e + 1) * 32);
            c.mut_drop_elem += 1;
            if let Ok(pr) = mk(p2) {
                expect_false(log, "path_elem_dropped", guarded(|| pr.verify(leaf, root)), format!("elem={e}"));
            }
        }
    }
    if elems >= 2 {
        for e in 0..elems - 1 {
            if path[e * 32..(e + 1) * 32] == path[(e + 1) * 32..(e + 2) * 32] {
                continue; // identical artefact
            }
            let mut p2 = path.clone();
            for b in 0..32 {
                p2.swap(e * 32 + b, (e + 1) * 32 + b);
            }
            c.mut_swap_elem += 1;
            if let Ok(pr) = mk(p2) {
                expect_false(log, "path_elems_swapped", guarded(|| pr.verify(leaf, root)), format!("elem={e}"));
            }
        }
    }
    // another leaf's content under this proof
    if n >= 2 {
        let j = (i + 1 + rng.below(n - 1)) % n;
        if leaves[j] != *leaf {
            c.mut_other_leaf += 1;
            expect_false(log, "other_leaf_content", guarded(|| proof.verify(&leaves[j], root)), format!("other={j}"));
        }
    }
    // domain separation: present an inner node (left||right) as a leaf one level up. Only for perfect trees, where
    // the upper levels form a tree of n/2 leaves.
    if n >= 2 && n.is_power_of_two() && elems >= 1 {
        let me = ref_leaf(leaf);
        let sib: [u8; 32] = path[..32].try_into().unwrap();
        let (l, r) = if i % 2 == 0 { (me, sib) } else { (sib, me) };
        let mut fake_leaf = l.to_vec();
        fake_leaf.extend_from_slice(&r);
        let upper = Proof::unchecked().audit_path(path[32..].to_vec()).leaf_index(i / 2).tree_size(n - 1).try_into_proof();
        if let Ok(pr) = upper {
            c.domain_sep += 1;
            // sanity of the construction: with the *node* hash the walk must reach the root
            let node = ref_node(&l, &r);
            if let Ok(h) = guarded(|| pr.reconstruct_root_with_leaf_hash(node)) {
                if h != root {
                    log.ev(&format!("\"kind\":\"obs\",\"class\":\"domain_sep_construction_not_reaching_root\",{}", ctx("reconstruct")));
                }
            }
            expect_false(log, "inner_node_as_leaf", guarded(|| pr.verify(&fake_leaf, root)), String::new());
        }
    }
}

fn run_size(log: &mut Log, mode: &str, n: usize, indices: &[usize], rng: &mut Rng, all_positions: bool) {
    let leaves = gen_leaves(rng, n);
    let expected = ref_mth(&leaves);
    let tree = match guarded(|| build_tree(&leaves)) {
        Ok(t) => t,
        Err(p) => {
            log.ev(&format!("\"kind\":\"panic\",\"entry\":\"Tree::push\",\"class\":\"honest\",\"loc\":\"{}\",\"mode\":\"{mode}\",\"leaves\":{n}", esc(&p)));
            return;
        }
    };
    let root = match guarded(|| tree.root()) {
        Ok(r) => r,
        Err(p) => {
            log.ev(&format!("\"kind\":\"panic\",\"entry\":\"Tree::root\",\"class\":\"honest\",\"loc\":\"{}\",\"mode\":\"{mode}\",\"leaves\":{n}", esc(&p)));
            return;
        }
    };
    if root != expected {
        log.ev(&format!("\"kind\":\"fail\",\"class\":\"root_differs_from_rfc6962\",\"mode\":\"{mode}\",\"leaves\":{n},\"got\":\"{}\",\"want\":\"{}\",\"leaf_lens\":{:?}",
            hex(&root), hex(&expected), leaves.iter().map(Vec::len).collect::<Vec<_>>()));
    }
    // from_leaves must agree with push
    if let Ok(t2) = guarded(|| Tree::from_leaves(leaves.iter())) {
        if t2.root() != root {
            log.ev(&format!("\"kind\":\"fail\",\"class\":\"from_leaves_root_differs\",\"mode\":\"{mode}\",\"leaves\":{n}"));
        }
    }
    // an index just outside the tree must give no proof (and not panic)
    for out in [n, n + 1] {
        match guarded(|| tree.construct_proof(out)) {
            Ok(None) => {}
            Ok(Some(_)) => log.ev(&format!("\"kind\":\"fail\",\"class\":\"proof_for_index_outside_tree\",\"mode\":\"{mode}\",\"leaves\":{n},\"index\":{out}")),
            Err(p) => log.ev(&format!("\"kind\":\"panic\",\"entry\":\"construct_proof\",\"class\":\"index_outside\",\"loc\":\"{}\",\"mode\":\"{mode}\",\"leaves\":{n},\"index\":{out}", esc(&p))),
        }
    }
    let mut c = Counts::default();
    for &i in indices {
        check_index(log, mode, &leaves, &tree, root, i, rng, &mut c, all_positions);
    }
    log.ev(&format!(
        "\"kind\":\"size_done\",\"mode\":\"{mode}\",\"leaves\":{n},\"indices\":{},\"root_ok\":{},\"proofs_ok\":{},\"mut_leaf\":{},\"mut_path\":{},\"mut_root\":{},\"mut_other_leaf\":{},\"mut_drop_elem\":{},\"mut_swap_elem\":{},\"domain_sep\":{},\"path_eq_rfc\":{},\"root\":\"{}\"",
        indices.len(), root == expected, c.proofs_ok, c.mut_leaf, c.mut_path, c.mut_root, c.mut_other_leaf, c.mut_drop_elem, c.mut_swap_elem, c.domain_sep, c.path_eq_rfc, hex(&root[..8])));
}

/// Decodable-but-inconsistent (audit path, leaf index, tree size) triples: totality only.
fn adversarial(log: &mut Log, rng: &mut Rng, count: usize) {
    const HI: usize = 1usize << (usize::BITS - 1);
    let mut done = 0usize;
    while done < count {
        let n = 1 + rng.below(40);
        let leaves = gen_leaves(rng, n);
        let tree = build_tree(&leaves);
        let root = tree.root();
        let i = rng.below(n);
        let proof = tree.construct_proof(i).unwrap();
        let base_path = proof.audit_path().to_vec();
        let (li, ts) = (proof.leaf_index(), proof.tree_size().get());
        // each variant: (class, path, index, size)
        let mut variants: Vec<(String, Vec<u8>, usize, usize)> = vec![];
        for extra in 1..=3usize {
            let mut p = base_path.clone();
            for _ in 0..extra {
                p.extend(rng.bytes(32));
            }
            variants.push((format!("path_plus_{extra}"), p, li, ts));
            if base_path.len() >= 32 * extra {
                variants.push((format!("path_minus_{extra}"), base_path[..base_path.len() - 32 * extra].to_vec(), li, ts));
            }
        }
        variants.push(("path_plus_70".into(), [base_path.clone(), rng.bytes(32 * 70)].concat(), li, ts));
        variants.push(("path_len_not_multiple_of_32".into(), [base_path.clone(), vec![1u8; 1 + rng.below(31)]].concat(), li, ts));
        variants.push(("tree_size_even_plus1".into(), base_path.clone(), li, ts + 1));
        if ts > 1 { variants.push(("tree_size_even_minus1".into(), base_path.clone(), li.min((ts - 1).saturating_sub(1) / 2), ts - 1)); }
        variants.push(("tree_size_bigger_odd".into(), base_path.clone(), li, ts + 2 * (1 + rng.below(50))));
        variants.push(("tree_size_smaller".into(), base_path.clone(), 0, 1 + rng.below(ts)));
        variants.push(("tree_size_zero".into(), base_path.clone(), li, 0));
        variants.push(("tree_size_usize_max".into(), base_path.clone(), li, usize::MAX));
        variants.push(("tree_size_2^63".into(), base_path.clone(), li, HI));
        variants.push(("tree_size_2^63-1".into(), base_path.clone(), li, HI - 1));
        variants.push(("leaf_index_at_bound".into(), base_path.clone(), ts.div_ceil(2), ts));
        variants.push(("leaf_index_last".into(), base_path.clone(), (ts - 1) / 2, ts));
        variants.push(("leaf_index_usize_max".into(), base_path.clone(), usize::MAX, ts));
        variants.push(("leaf_index_2^63".into(), base_path.clone(), HI, ts));
        variants.push(("leaf_index_2^63-1".into(), base_path.clone(), HI - 1, ts));
        variants.push(("leaf_index_2^62_size_max".into(), base_path.clone(), HI / 2, usize::MAX));
        variants.push(("leaf_index_2^63-1_size_max".into(), base_path.clone(), HI - 1, usize::MAX));
        variants.push(("leaf_index_2^63_size_max".into(), base_path.clone(), HI, usize::MAX));
        let (k1, k2, k3, s1, s2) = (60 + rng.below(10), rng.below(70), rng.below(8), rng.below(64), rng.below(64));
        variants.push(("index_big_size_max_long_path".into(), rng.bytes(32 * k1), rng.next() as usize >> 1, usize::MAX));
        variants.push(("random_triple".into(), rng.bytes(32 * k2), rng.next() as usize >> s1, (rng.next() as usize >> s2) | 1));
        variants.push(("random_triple_any_size".into(), rng.bytes(32 * k3), rng.below(64), rng.below(128)));
        variants.push(("empty_path_big_tree".into(), vec![], li, ts + 64));
        for (class, path, idx, size) in variants {
            done += 1;
            let path_elems = path.len() / 32;
            let desc = format!("\"class\":\"{class}\",\"path_elems\":{path_elems},\"path_len\":{},\"leaf_index\":{idx},\"tree_size\":{size},\"base_leaves\":{n},\"base_index\":{i}", path.len());
            let unchecked = Proof::unchecked().audit_path(path.clone()).leaf_index(idx).tree_size(size);
            let decoded = match guarded(|| unchecked.try_into_proof()) {
                Ok(Ok(p)) => p,
                Ok(Err(_)) => {
                    log.ev(&format!("\"kind\":\"adv\",\"outcome\":\"refused\",{desc}"));
                    continue;
                }
                Err(p) => {
                    log.ev(&format!("\"kind\":\"panic\",\"entry\":\"try_into_proof\",\"loc\":\"{}\",{desc}", esc(&p)));
                    continue;
                }
            };
            let leaf = &leaves[i];
            let mut outcome = String::from("decoded");
            match guarded(|| decoded.verify(leaf, root)) {
                Ok(b) => {
                    write!(outcome, ",verify={b}").unwrap();
                    if b && path != base_path {
                        log.ev(&format!("\"kind\":\"fail\",\"class\":\"mutant_accepted:adversarial_path\",{desc}"));
                    }
                }
                Err(p) => {
                    log.ev(&format!("\"kind\":\"panic\",\"entry\":\"verify\",\"loc\":\"{}\",{desc}", esc(&p)));
                    outcome.push_str(",verify=panic");
                }
            }
            if let Err(p) = guarded(|| decoded.reconstruct_root_with_leaf_hash([7u8; 32])) {
                log.ev(&format!("\"kind\":\"panic\",\"entry\":\"reconstruct_root_with_leaf_hash\",\"loc\":\"{}\",{desc}", esc(&p)));
            }
            if let Err(p) = guarded(|| decoded.audit().with_leaf_builder().write(b"ab").write(b"c").finish_leaf().with_root(root).perform()) {
                log.ev(&format!("\"kind\":\"panic\",\"entry\":\"audit_builder_perform\",\"loc\":\"{}\",{desc}", esc(&p)));
            }
            // round trip through the unchecked form must be stable
            let again = decoded.clone().into_unchecked().try_into_proof();
            if again.as_ref().ok() != Some(&decoded) {
                log.ev(&format!("\"kind\":\"fail\",\"class\":\"unchecked_roundtrip_differs\",{desc}"));
            }
            log.ev(&format!("\"kind\":\"adv\",\"outcome\":\"{outcome}\",{desc}"));
        }
    }
}

fn main() {
    let args: Vec<String> = std::env::args().collect();
    if args.len() < 4 {
        eprintln!("usage: vh-merkle <mode> <seed> <out.jsonl|-> [key=value ...]");
        std::process::exit(64);
    }
    let mode = args[1].as_str();
    let seed: u64 = args[2].parse().expect("seed");
    let out: Box<dyn std::io::Write> = if args[3] == "-" {
        Box::new(std::io::stdout())
    } else {
        Box::new(std::io::BufWriter::new(std::fs::File::create(&args[3]).expect("create out")))
    };
    let kv = |k: &str, d: usize| -> usize {
        args[4..].iter().find_map(|a| a.strip_prefix(&format!("{k}=")).map(|v| v.parse().expect("number"))).unwrap_or(d)
    };
    install_panic_hook();
    let mut log = Log { out, seq: 0 };
    let mut rng = Rng(seed ^ 0xC08C_08C0_8C08_u64.wrapping_mul(mode.len() as u64 + 1));
    let (shard, shards) = (kv("shard", 0), kv("shards", 1));
    log.ev(&format!("\"kind\":\"start\",\"mode\":\"{mode}\",\"seed\":{seed},\"shard\":{shard},\"shards\":{shards},\"usize_bits\":{}", usize::BITS));
    match mode {
        "exhaustive" => {
            let max = kv("max", 64);
            let all_positions = kv("allpos", 1) == 1;
            for n in 0..=max {
                if n % shards != shard {
                    continue;
                }
                let mut r = Rng(rng.0 ^ (n as u64).wrapping_mul(0x1234_5678_9ABC_DEF1));
                let idx: Vec<usize> = (0..n).collect();
                run_size(&mut log, mode, n, &idx, &mut r, all_positions);
            }
        }
        "sampled" => {
            let count = kv("count", 40);
            let per = kv("indices", 12);
            let max_pow = kv("maxpow", 16);
            let mut sizes: Vec<usize> = vec![];
            for k in 7..=max_pow {
                for d in [-1i64, 0, 1] {
                    sizes.push(((1i64 << k) + d) as usize);
                }
            }
            for _ in 0..count {
                sizes.push(65 + rng.below(236));
            }
            for (k, n) in sizes.into_iter().enumerate() {
                if k % shards != shard {
                    continue;
                }
                let mut r = Rng(rng.0 ^ (k as u64).wrapping_mul(0x1234_5678_9ABC_DEF1));
                let mut idx: Vec<usize> = vec![0, n - 1, n / 2, split_point(n), split_point(n) - 1];
                for _ in 0..per {
                    idx.push(r.below(n));
                }
                idx.sort_unstable();
                idx.dedup();
                run_size(&mut log, mode, n, &idx, &mut r, false);
            }
        }
        "adversarial" => {
            let count = kv("count", 2000);
            let mut r = Rng(rng.0 ^ (shard as u64).wrapping_mul(0x1234_5678_9ABC_DEF1));
            adversarial(&mut log, &mut r, count);
        }
        _ => {
            eprintln!("unknown mode");
            std::process::exit(64);
        }
    }
    log.ev("\"kind\":\"end\"");
    log.out.flush().unwrap();
}
