//! C17 harness: untrusted bytes against the public astria-core decoders (transactions, sequencer blocks, filtered blocks,
//! Celestia metadata / rollup-data entries and blobs). Valid encodings are produced with the crate's own builders, mutated
//! structure-aware (see /verif/harness/common/mutate.rs) and fed to every entry point under a panic monitor; accepted
//! values are re-encoded and decoded again (must be equal) and re-verified. One JSON summary line per (entry, operator,
//! outcome) plus a full record for every panic / inconsistency. /verif/lib/checkers/c17.py judges.
//!
//! usage: vh-wire <seed> <out.jsonl> [shard=<i>] [shards=<n>] [rounds=<k>]

#[path = "/verif/harness/common/mutate.rs"]
mod mutate;

use std::{
    collections::BTreeMap,
    io::Write as _,
    panic::{
        catch_unwind,
        AssertUnwindSafe,
    },
};

use astria_core::{
    crypto::SigningKey,
    generated::astria::{
        protocol::transaction::v1 as rawtx,
        sequencerblock::v1 as rawblock,
    },
    primitive::v1::{
        asset::Denom,
        Address,
        RollupId,
    },
    protocol::{
        test_utils::ConfigureSequencerBlock,
        transaction::v1::{
            action::{
                BridgeLock,
                BridgeUnlock,
                FeeAssetChange,
                Ics20Withdrawal,
                InitBridgeAccount,
                RollupDataSubmission,
                Transfer,
                ValidatorUpdate,
            },
            Action,
            Transaction,
            TransactionBody,
        },
    },
    sequencerblock::v1::{
        block::{
            Deposit,
            FilteredSequencerBlock,
        },
        SequencerBlock,
        SubmittedMetadata,
        SubmittedRollupData,
    },
    Protobuf as _,
};
use prost::Message as _;
use rand::SeedableRng as _;
use rand_chacha::ChaChaRng;

fn hexs(b: &[u8]) -> String {
    b.iter().map(|x| format!("{x:02x}")).collect()
}

thread_local! { static LAST_PANIC: std::cell::RefCell<Option<String>> = const { std::cell::RefCell::new(None) }; }
thread_local! { static GUARD_DEPTH: std::cell::Cell<u32> = const { std::cell::Cell::new(0) }; }

fn guarded<T>(f: impl FnOnce() -> T) -> Result<T, String> {
    GUARD_DEPTH.with(|d| d.set(d.get() + 1));
    let r = catch_unwind(AssertUnwindSafe(f));
    GUARD_DEPTH.with(|d| d.set(d.get() - 1));
    match r {
        Ok(v) => Ok(v),
        Err(_) => Err(LAST_PANIC.with(|p| p.borrow_mut().take()).unwrap_or_else(|| "?".into())),
    }
}

fn addr(b: u8) -> Address {
    Address::builder().prefix("astria").array([b; 20]).try_build().unwrap()
}

fn denom(s: &str) -> Denom {
    s.parse().unwrap()
}

/// (entry point name, valid encoding)
fn corpus(rng: &mut ChaChaRng) -> Vec<(&'static str, Vec<u8>)> {
    let key = SigningKey::new(&mut *rng);
    let mut out = vec![];
    let bodies: Vec<Vec<Action>> = vec![
        vec![Action::Transfer(Transfer { to: addr(1), amount: 5, asset: denom("nria"), fee_asset: denom("nria") })],
        vec![
            Action::RollupDataSubmission(RollupDataSubmission { rollup_id: RollupId::new([3; 32]), data: vec![7u8; 40].into(), fee_asset: denom("nria") }),
            Action::Transfer(Transfer { to: addr(2), amount: u128::MAX, asset: denom("transfer/channel-0/utia"), fee_asset: denom("nria") }),
        ],
        vec![Action::BridgeLock(BridgeLock { to: addr(3), amount: 9, asset: denom("nria"), fee_asset: denom("nria"), destination_chain_address: "0xabc".into() })],
        vec![Action::BridgeUnlock(BridgeUnlock { to: addr(4), amount: 1, fee_asset: denom("nria"), bridge_address: addr(5), memo: "m".into(), rollup_block_number: 3, rollup_withdrawal_event_id: "ev".into() })],
        vec![Action::InitBridgeAccount(InitBridgeAccount { rollup_id: RollupId::new([4; 32]), asset: denom("nria"), fee_asset: denom("nria"), sudo_address: Some(addr(6)), withdrawer_address: None })],
        vec![Action::ValidatorUpdate(ValidatorUpdate { power: 10, verification_key: key.verification_key(), name: "val".parse().unwrap() })],
        vec![Action::FeeAssetChange(FeeAssetChange::Addition(denom("denom-a")))],
        vec![Action::Ics20Withdrawal(Ics20Withdrawal {
            amount: 7, denom: denom("nria"), destination_chain_address: "dest".into(), return_address: addr(7),
            timeout_height: ibc_types::core::client::Height::new(2, 100).unwrap(),
            timeout_time: 1_000_000, source_channel: "channel-0".parse().unwrap(), fee_asset: denom("nria"), memo: String::new(), bridge_address: None, use_compat_address: false,
        })],
    ];
    let mut bodies = bodies;
    bodies.extend(more_bodies(&key));
    for (n, actions) in bodies.into_iter().enumerate() {
        if let Ok(body) = TransactionBody::builder().actions(actions).chain_id("test").nonce(n as u32).try_build() {
            let raw = body.sign(&key).into_raw();
            // the signed payload on its own: mutated and then signed again by the harness, so that the mutant passes the
            // signature check and reaches the per-action conversions and checks (entry "transaction_resigned")
            if let Some(any) = &raw.body {
                out.push(("transaction_resigned", any.value.to_vec()));
            }
            out.push(("transaction", raw.encode_to_vec()));
        }
    }
    for (h, nrollups, with_deposit) in [(1u32, 0usize, false), (2, 1, false), (3, 3, true), (4, 2, true)] {
        let sequence_data: Vec<(RollupId, Vec<u8>)> = (0..nrollups).flat_map(|r| vec![(RollupId::new([r as u8 + 1; 32]), vec![r as u8; 5 + r]), (RollupId::new([r as u8 + 1; 32]), vec![])]).collect();
        let deposits = if with_deposit {
            vec![Deposit {
                bridge_address: addr(9), rollup_id: RollupId::new([1; 32]), amount: 77, asset: denom("nria"), destination_chain_address: "rollupdest".into(),
                source_transaction_id: astria_core::primitive::v1::TransactionId::new([8; 32]), source_action_index: 1,
            }]
        } else {
            vec![]
        };
        let block = ConfigureSequencerBlock {
            chain_id: Some("wire-chain".into()),
            height: h,
            sequence_data,
            deposits,
            block_hash: Some(astria_core::sequencerblock::v1::block::Hash::new([h as u8; 32])),
            unix_timestamp: (5i64, 6u32).into(),
            signing_key: Some(key.clone()),
            ..Default::default()
        }
        .make();
        out.push(("sequencer_block", block.clone().into_raw().encode_to_vec()));
        let ids: Vec<RollupId> = block.rollup_transactions().keys().copied().take(1).collect();
        out.push(("filtered_block", block.to_filtered_block(ids).into_raw().encode_to_vec()));
        let (meta, rollups) = block.split_for_celestia();
        let meta_raw = meta.into_raw();
        out.push(("submitted_metadata", meta_raw.encode_to_vec()));
        let list = rawblock::SubmittedMetadataList { entries: vec![meta_raw] }.encode_to_vec();
        out.push(("metadata_blob", astria_core::brotli::compress_bytes(&list).unwrap()));
        let mut entries = vec![];
        for r in rollups {
            let raw = r.into_raw();
            out.push(("submitted_rollup_data", raw.encode_to_vec()));
            entries.push(raw);
        }
        if !entries.is_empty() {
            let list = rawblock::SubmittedRollupDataList { entries }.encode_to_vec();
            out.push(("rollup_blob", astria_core::brotli::compress_bytes(&list).unwrap()));
        }
    }
    out
}

/// Single-action bodies for the action kinds the first list does not contain (one action group per transaction).
fn more_bodies(key: &SigningKey) -> Vec<Vec<Action>> {
    use astria_core::protocol::{
        fees::v1::FeeComponents,
        transaction::v1::action::{
            BridgeSudoChange,
            BridgeTransfer,
            CurrencyPairsChange,
            FeeChange,
            IbcRelayerChange,
            IbcSudoChange,
            RecoverIbcClient,
            SudoAddressChange,
        },
    };
    let _ = key;
    let client = |n: u64| ibc_types::core::client::ClientId::new(ibc_types::core::client::ClientType::new("07-tendermint".to_string()), n).unwrap();
    vec![
        vec![Action::SudoAddressChange(SudoAddressChange { new_address: addr(11) })],
        vec![Action::IbcSudoChange(IbcSudoChange { new_address: addr(12) })],
        vec![Action::IbcRelayerChange(IbcRelayerChange::Addition(addr(13)))],
        vec![Action::IbcRelayerChange(IbcRelayerChange::Removal(addr(14)))],
        vec![Action::FeeChange(FeeChange::Transfer(FeeComponents::new(3, 4)))],
        vec![Action::FeeChange(FeeChange::RollupDataSubmission(FeeComponents::new(u128::MAX, 1)))],
        vec![Action::FeeAssetChange(FeeAssetChange::Removal(denom("denom-b")))],
        vec![Action::BridgeSudoChange(BridgeSudoChange { bridge_address: addr(15), new_sudo_address: Some(addr(16)), new_withdrawer_address: None, fee_asset: denom("nria"), disable_deposits: true })],
        vec![Action::BridgeTransfer(BridgeTransfer { to: addr(17), amount: 12, fee_asset: denom("nria"), destination_chain_address: "0xdef".into(), bridge_address: addr(18), rollup_block_number: 9, rollup_withdrawal_event_id: "evt".into() })],
        vec![Action::RecoverIbcClient(RecoverIbcClient { client_id: client(0), replacement_client_id: client(1) })],
        vec![Action::CurrencyPairsChange(CurrencyPairsChange::Addition(["BTC/USD".parse().unwrap(), "ETH/USD".parse().unwrap()].into_iter().collect()))],
        vec![Action::CurrencyPairsChange(CurrencyPairsChange::Removal(["BTC/USD".parse().unwrap()].into_iter().collect()))],
        vec![
            Action::Transfer(Transfer { to: addr(1), amount: 0, asset: denom("ibc/0011223344556677889900112233445566778899001122334455667788990011"), fee_asset: denom("nria") }),
            Action::BridgeLock(BridgeLock { to: addr(3), amount: u128::MAX, asset: denom("transfer/channel-1/uosmo"), fee_asset: denom("nria"), destination_chain_address: String::new() }),
            Action::RollupDataSubmission(RollupDataSubmission { rollup_id: RollupId::new([0; 32]), data: vec![1u8; 1].into(), fee_asset: denom("nria") }),
        ],
    ]
}

// ---- independent re-verification of the inclusion proofs an accepted block carries ("proofs verify against the header")

fn rfc_leaf(d: &[u8]) -> [u8; 32] {
    use sha2::Digest as _;
    let mut h = sha2::Sha256::new();
    h.update([0u8]);
    h.update(d);
    h.finalize().into()
}

fn rfc_node(l: &[u8; 32], r: &[u8; 32]) -> [u8; 32] {
    use sha2::Digest as _;
    let mut h = sha2::Sha256::new();
    h.update([1u8]);
    h.update(l);
    h.update(r);
    h.finalize().into()
}

/// RFC 6962 Merkle tree hash (independent of astria-merkle).
fn rfc_mth<T: AsRef<[u8]>>(l: &[T]) -> [u8; 32] {
    use sha2::Digest as _;
    match l.len() {
        0 => sha2::Sha256::digest([]).into(),
        1 => rfc_leaf(l[0].as_ref()),
        n => {
            let mut k = 1;
            while k * 2 < n {
                k *= 2;
            }
            rfc_node(&rfc_mth(&l[..k]), &rfc_mth(&l[k..]))
        }
    }
}

/// RFC 9162 2.1.3.2 inclusion-proof verification. `nodes` is astria-merkle's tree size (2 * leaves - 1); `None` if it is
/// not of that form (then only the library's own verification is consulted).
fn rfc_verify(leaf: &[u8], index: usize, nodes: usize, path: &[u8], root: &[u8; 32]) -> Option<bool> {
    if nodes % 2 == 0 || path.len() % 32 != 0 {
        return None;
    }
    let leaves = nodes / 2 + 1;
    if index >= leaves {
        return Some(false);
    }
    let (mut f, mut s) = (index, leaves - 1);
    let mut r = rfc_leaf(leaf);
    for p in path.chunks(32) {
        let p: [u8; 32] = p.try_into().unwrap();
        if s == 0 {
            return Some(false);
        }
        if f & 1 == 1 || f == s {
            r = rfc_node(&p, &r);
            if f & 1 == 0 {
                while f & 1 == 0 && f != 0 {
                    f >>= 1;
                    s >>= 1;
                }
            }
        } else {
            r = rfc_node(&r, &p);
        }
        f >>= 1;
        s >>= 1;
    }
    Some(s == 0 && &r == root)
}

static LIB_ACCEPTS_RFC_REJECTS: std::sync::atomic::AtomicU64 = std::sync::atomic::AtomicU64::new(0);
static PROOFS_REVERIFIED: std::sync::atomic::AtomicU64 = std::sync::atomic::AtomicU64::new(0);

/// The type's stated check is the library's `Proof::verify` against the header's root: it must hold again on whatever was
/// accepted (a decoder that skips or weakens the check is what this catches). The independent RFC 9162 verification is
/// recorded next to it but not judged: astria-merkle accepts a proof that claims a larger tree than the real one as long as
/// the hash chain reaches the root (the leaf is still bound to the root), which RFC 9162 would reject.
fn proof_ok(proof: &astria_merkle::Proof, leaf: &[u8], root: [u8; 32]) -> bool {
    use std::sync::atomic::Ordering;
    let lib = proof.verify(leaf, root);
    PROOFS_REVERIFIED.fetch_add(1, Ordering::Relaxed);
    if lib && rfc_verify(leaf, proof.leaf_index(), proof.tree_size().get(), proof.audit_path(), &root) == Some(false) {
        LIB_ACCEPTS_RFC_REJECTS.fetch_add(1, Ordering::Relaxed);
    }
    lib
}

fn rollup_proofs_ok<'a>(
    rollups: impl Iterator<Item = &'a astria_core::sequencerblock::v1::block::RollupTransactions>,
    rollup_transactions_root: [u8; 32],
) -> bool {
    for rt in rollups {
        let mut leaf = rt.rollup_id().as_ref().to_vec();
        leaf.extend_from_slice(&rfc_mth(rt.transactions()));
        if !proof_ok(rt.proof(), &leaf, rollup_transactions_root) {
            return false;
        }
    }
    true
}

fn top_level_proofs_ok(
    rollup_transactions_root: [u8; 32],
    rollup_transactions_proof: &astria_merkle::Proof,
    all_ids: &[astria_core::primitive::v1::RollupId],
    rollup_ids_proof: &astria_merkle::Proof,
    data_hash: [u8; 32],
) -> bool {
    use sha2::Digest as _;
    let ids_root = rfc_mth(&all_ids.iter().map(|i| i.as_ref().to_vec()).collect::<Vec<_>>());
    proof_ok(rollup_transactions_proof, &sha2::Sha256::digest(rollup_transactions_root), data_hash)
        && proof_ok(rollup_ids_proof, &sha2::Sha256::digest(ids_root), data_hash)
}

/// A service that refuses untrusted bytes logs the refusal: rendering the error (Display, Debug, and the whole source chain)
/// is part of handling the input and must not panic either.
fn render<E: std::error::Error>(e: &E) -> String {
    let mut out = format!("{e} | {e:?}");
    let mut src = e.source();
    while let Some(x) = src {
        out.push_str(&format!(" <- {x}"));
        src = x.source();
    }
    ERRORS_RENDERED.fetch_add(1, std::sync::atomic::Ordering::Relaxed);
    out
}

static ERRORS_RENDERED: std::sync::atomic::AtomicU64 = std::sync::atomic::AtomicU64::new(0);

/// Runs one entry point on `bytes`: "err" | "ok" | "ok_but_<inconsistency>".
fn decode(entry: &str, bytes: &[u8]) -> String {
    match entry {
        "transaction" => {
            let Ok(raw) = rawtx::Transaction::decode(bytes) else { return "err".into() };
            match Transaction::try_from_raw(raw) {
                Err(e) => {
                    let _ = render(&e);
                    "err".into()
                }
                Ok(tx) => {
                    // "re-encodes to an equivalent message": the message obtained from the accepted value must be the message that
                    // was received (compared as decoded protobuf messages, so field order / unknown fields on the wire do not matter)
                    let received = rawtx::Transaction::decode(bytes).expect("decoded above");
                    if tx.to_raw() != received {
                        return "ok_but_reencoding_differs_from_received_message".into();
                    }
                    let again = tx.to_raw().encode_to_vec();
                    match rawtx::Transaction::decode(&*again).ok().and_then(|r| Transaction::try_from_raw(r).ok()) {
                        Some(tx2) if tx2.to_raw().encode_to_vec() == again => "ok".into(),
                        Some(_) => "ok_but_roundtrip_differs".into(),
                        None => "ok_but_reencoding_rejected".into(),
                    }
                }
            }
        }
        "transaction_resigned" => {
            // `bytes` is a (mutated) TransactionBody encoding; sign it as a client would and hand the result to the decoder
            let key = SigningKey::from([0x42; 32]);
            let sig = key.sign(bytes);
            let raw = rawtx::Transaction {
                signature: sig.to_bytes().to_vec().into(),
                public_key: key.verification_key().to_bytes().to_vec().into(),
                body: Some(pbjson_types::Any { type_url: <rawtx::TransactionBody as prost::Name>::type_url(), value: bytes.to_vec().into() }),
            };
            decode("transaction", &raw.encode_to_vec())
        }
        "sequencer_block" => {
            let Ok(raw) = rawblock::SequencerBlock::decode(bytes) else { return "err".into() };
            match SequencerBlock::try_from_raw(raw) {
                Err(e) => {
                    let _ = render(&e);
                    "err".into()
                }
                Ok(b) => {
                    let again = b.clone().into_raw().encode_to_vec();
                    match rawblock::SequencerBlock::decode(&*again).ok().and_then(|r| SequencerBlock::try_from_raw(r).ok()) {
                        Some(b2) if b2 == b => {
                            // the derived artefacts must be producible without panicking and verify again
                            let (m, rs) = b.clone().split_for_celestia();
                            let ok = SubmittedMetadata::try_from_raw(m.into_raw()).is_ok() && rs.into_iter().all(|r| SubmittedRollupData::try_from_raw(r.into_raw()).is_ok());
                            let ids: Vec<_> = b.rollup_transactions().keys().copied().collect();
                            if !ok {
                                "ok_but_split_artefacts_rejected".into()
                            } else if !rollup_proofs_ok(b.rollup_transactions().values(), *b.header().rollup_transactions_root()) {
                                "ok_but_rollup_proof_does_not_verify".into()
                            } else if !top_level_proofs_ok(*b.header().rollup_transactions_root(), b.rollup_transactions_proof(), &ids, b.rollup_ids_proof(), *b.header().data_hash()) {
                                "ok_but_header_proof_does_not_verify".into()
                            } else {
                                "ok".into()
                            }
                        }
                        Some(_) => "ok_but_roundtrip_differs".into(),
                        None => "ok_but_reencoding_rejected".into(),
                    }
                }
            }
        }
        "filtered_block" => {
            let Ok(raw) = rawblock::FilteredSequencerBlock::decode(bytes) else { return "err".into() };
            match FilteredSequencerBlock::try_from_raw(raw) {
                Err(e) => {
                    let _ = render(&e);
                    "err".into()
                }
                Ok(b) => {
                    let again = b.clone().into_raw().encode_to_vec();
                    match rawblock::FilteredSequencerBlock::decode(&*again).ok().and_then(|r| FilteredSequencerBlock::try_from_raw(r).ok()) {
                        Some(b2) if b2 == b => {
                            if !rollup_proofs_ok(b.rollup_transactions().values(), *b.rollup_transactions_root()) {
                                "ok_but_rollup_proof_does_not_verify".into()
                            } else if !top_level_proofs_ok(*b.rollup_transactions_root(), b.rollup_transactions_proof(), b.all_rollup_ids(), b.rollup_ids_proof(), *b.header().data_hash()) {
                                "ok_but_header_proof_does_not_verify".into()
                            } else {
                                "ok".into()
                            }
                        }
                        Some(_) => "ok_but_roundtrip_differs".into(),
                        None => "ok_but_reencoding_rejected".into(),
                    }
                }
            }
        }
        "submitted_metadata" => {
            let Ok(raw) = rawblock::SubmittedMetadata::decode(bytes) else { return "err".into() };
            match SubmittedMetadata::try_from_raw(raw) {
                Err(e) => {
                    let _ = render(&e);
                    "err".into()
                }
                Ok(m) => {
                    let again = m.clone().into_raw().encode_to_vec();
                    match rawblock::SubmittedMetadata::decode(&*again).ok().and_then(|r| SubmittedMetadata::try_from_raw(r).ok()) {
                        Some(m2) if m2.clone().into_raw().encode_to_vec() == again => "ok".into(),
                        Some(_) => "ok_but_roundtrip_differs".into(),
                        None => "ok_but_reencoding_rejected".into(),
                    }
                }
            }
        }
        "submitted_rollup_data" => {
            let Ok(raw) = rawblock::SubmittedRollupData::decode(bytes) else { return "err".into() };
            match SubmittedRollupData::try_from_raw(raw) {
                Err(e) => {
                    let _ = render(&e);
                    "err".into()
                }
                Ok(r) => {
                    // conductor's audit must be computable on whatever was accepted
                    let _ = r.proof().audit().with_root([9; 32]).with_leaf_builder().write(r.rollup_id().as_bytes())
                        .write(&astria_merkle::Tree::from_leaves(r.transactions()).root()).finish_leaf().perform();
                    let again = r.clone().into_raw().encode_to_vec();
                    match rawblock::SubmittedRollupData::decode(&*again).ok().and_then(|x| SubmittedRollupData::try_from_raw(x).ok()) {
                        Some(r2) if r2.clone().into_raw().encode_to_vec() == again => "ok".into(),
                        Some(_) => "ok_but_roundtrip_differs".into(),
                        None => "ok_but_reencoding_rejected".into(),
                    }
                }
            }
        }
        "metadata_blob" => {
            let Ok(raw) = astria_core::brotli::decompress_bytes(bytes) else { return "err".into() };
            let Ok(list) = rawblock::SubmittedMetadataList::decode(&*raw) else { return "err".into() };
            if list.entries.into_iter().all(|e| SubmittedMetadata::try_from_raw(e).map_err(|e| render(&e)).is_ok()) { "ok".into() } else { "err".into() }
        }
        "rollup_blob" => {
            let Ok(raw) = astria_core::brotli::decompress_bytes(bytes) else { return "err".into() };
            let Ok(list) = rawblock::SubmittedRollupDataList::decode(&*raw) else { return "err".into() };
            if list.entries.into_iter().all(|e| SubmittedRollupData::try_from_raw(e).map_err(|e| render(&e)).is_ok()) { "ok".into() } else { "err".into() }
        }
        _ => "err".into(),
    }
}

fn main() {
    let args: Vec<String> = std::env::args().collect();
    if args.len() < 3 {
        eprintln!("usage: vh-wire <seed> <out.jsonl> [shard=<i>] [shards=<n>] [rounds=<k>]");
        std::process::exit(64);
    }
    let seed: u64 = args[1].parse().expect("seed");
    let kv = |k: &str, d: u64| -> u64 { args[3..].iter().find_map(|a| a.strip_prefix(&format!("{k}=")).map(|v| v.parse().expect("number"))).unwrap_or(d) };
    let (shard, shards, rounds) = (kv("shard", 0), kv("shards", 1), kv("rounds", 1));
    std::panic::set_hook(Box::new(|info| {
        let loc = info.location().map(|l| format!("{}:{}", l.file(), l.line())).unwrap_or_default();
        let msg = info.payload().downcast_ref::<&str>().map(|s| (*s).to_string()).or_else(|| info.payload().downcast_ref::<String>().cloned()).unwrap_or_default();
        if GUARD_DEPTH.with(|d| d.get()) == 0 {
            eprintln!("vh-wire: panic outside the code under test (harness error): {loc} {msg}");
        }
        LAST_PANIC.with(|p| *p.borrow_mut() = Some(format!("{loc} {msg}")));
    }));
    let mut out = std::io::BufWriter::new(std::fs::File::create(&args[2]).expect("create out"));
    writeln!(out, "{}", serde_json::json!({"kind": "start", "seed": seed, "shard": shard, "shards": shards})).unwrap();
    let mut counts: BTreeMap<(String, String, String), u64> = BTreeMap::new();
    for round in 0..rounds {
        let mut crng = ChaChaRng::seed_from_u64(seed ^ (round << 32) ^ 0xC17);
        let corpus = corpus(&mut crng);
        let all: Vec<Vec<u8>> = corpus.iter().map(|(_, b)| b.clone()).collect();
        for (ci, (entry, valid)) in corpus.iter().enumerate() {
            if (ci as u64 + round) % shards != shard {
                continue;
            }
            // the valid encoding itself must be accepted
            let base = guarded(|| decode(entry, valid)).unwrap_or_else(|p| format!("panic:{p}"));
            *counts.entry((entry.to_string(), "valid".into(), base.clone())).or_default() += 1;
            if base != "ok" {
                writeln!(out, "{}", serde_json::json!({"kind": "decode_case", "entry": entry, "operator": "valid", "outcome": base, "input": hexs(valid)})).unwrap();
            }
            let mut mrng = mutate::Rng(seed ^ (ci as u64).wrapping_mul(0x1234_5678_9ABC_DEF1) ^ round);
            let is_blob = entry.ends_with("_blob");
            for (op, bytes) in mutate::mutants(valid, &all, &mut mrng, if is_blob { 0 } else { 5 }, 6000) {
                let outcome = guarded(|| decode(entry, &bytes)).unwrap_or_else(|p| format!("panic:{p}"));
                let fam = mutate::family(&op).to_string();
                *counts.entry((entry.to_string(), fam.clone(), outcome.split(':').next().unwrap_or("").to_string())).or_default() += 1;
                if outcome != "ok" && outcome != "err" {
                    writeln!(out, "{}", serde_json::json!({"kind": "decode_case", "entry": entry, "operator": op, "outcome": outcome, "input": hexs(&bytes)})).unwrap();
                }
            }
            // the signature covers only the body bytes: everything else in the envelope can be rewritten by a third party
            if *entry == "transaction" {
                if let Ok(raw) = rawtx::Transaction::decode(&**valid) {
                    let canonical = raw.body.as_ref().map(|b| b.type_url.clone()).unwrap_or_default();
                    for alt in [String::new(), format!("type.googleapis.com{canonical}"), canonical.replace("TransactionBody", "Transaction"), format!("{canonical}x"), canonical.to_uppercase(), canonical.trim_start_matches('/').to_string()] {
                        let mut r2 = raw.clone();
                        if let Some(b) = r2.body.as_mut() {
                            b.type_url = alt;
                        }
                        let bytes = r2.encode_to_vec();
                        let outcome = guarded(|| decode(entry, &bytes)).unwrap_or_else(|p| format!("panic:{p}"));
                        *counts.entry((entry.to_string(), "type_url_rewritten".into(), outcome.split(':').next().unwrap_or("").to_string())).or_default() += 1;
                        if outcome != "ok" && outcome != "err" {
                            writeln!(out, "{}", serde_json::json!({"kind": "decode_case", "entry": entry, "operator": "type_url_rewritten", "outcome": outcome, "input": hexs(&bytes)})).unwrap();
                        }
                    }
                }
            }
            // for blobs: mutate the uncompressed list and compress it again (structure-aware through the compression)
            if is_blob {
                if let Ok(rawlist) = astria_core::brotli::decompress_bytes(valid) {
                    for (op, bytes) in mutate::mutants(&rawlist, &[], &mut mrng, 5, 2500) {
                        let Ok(comp) = astria_core::brotli::compress_bytes(&bytes) else { continue };
                        let outcome = guarded(|| decode(entry, &comp)).unwrap_or_else(|p| format!("panic:{p}"));
                        let fam = format!("recompressed:{}", mutate::family(&op));
                        *counts.entry((entry.to_string(), fam, outcome.split(':').next().unwrap_or("").to_string())).or_default() += 1;
                        if outcome != "ok" && outcome != "err" {
                            writeln!(out, "{}", serde_json::json!({"kind": "decode_case", "entry": entry, "operator": op, "outcome": outcome, "input": hexs(&comp)})).unwrap();
                        }
                    }
                }
            }
        }
    }
    for ((entry, op, outcome), n) in counts {
        writeln!(out, "{}", serde_json::json!({"kind": "decode_summary", "entry": entry, "operator": op, "outcome": outcome, "n": n})).unwrap();
    }
    writeln!(out, "{}", serde_json::json!({"kind": "proof_reverification", "errors_rendered": ERRORS_RENDERED.load(std::sync::atomic::Ordering::Relaxed), "proofs_reverified": PROOFS_REVERIFIED.load(std::sync::atomic::Ordering::Relaxed),
        "library_accepts_where_rfc9162_rejects": LIB_ACCEPTS_RFC_REJECTS.load(std::sync::atomic::Ordering::Relaxed)})).unwrap();
    writeln!(out, "{}", serde_json::json!({"kind": "end"})).unwrap();
    out.flush().unwrap();
}
