//! C09 harness (child module of `astria_conductor::celestia`, compiled only with `--features verif` in test builds).
//!
//! Two entry points, both recorders (the oracle is /verif/lib/checkers/c09.py):
//!  * `quorum_sweep`  – calls the real `ensure_commit_has_quorum` on harness-signed commits over enumerated voting
//!    power vectors x signer subsets x signature defects and logs the raw facts + the answer.
//!  * `pipeline`      – runs the real `decode_raw_blobs -> verify_metadata(BlobVerifier against a loopback CometBFT
//!    JSON-RPC mock) -> reconstruct_blocks_from_verified_blobs` on blob sets mixing honest and hostile items and logs
//!    what was served, what was posted, and what came out.
#![allow(clippy::pedantic, clippy::arithmetic_side_effects, dead_code)]

#[path = "/verif/harness/common/vlog.rs"]
mod vlog;

use std::{
    collections::HashMap,
    sync::{
        Arc,
        Mutex,
    },
};

use astria_core::{
    crypto::SigningKey,
    generated::astria::sequencerblock::v1::{
        SubmittedMetadataList,
        SubmittedRollupDataList,
    },
    primitive::v1::RollupId,
    protocol::test_utils::ConfigureSequencerBlock,
    sequencerblock::v1::{
        block,
        SubmittedMetadata,
    },
};
use celestia_types::{
    nmt::Namespace,
    Blob,
};
use prost::Message as _;
use rand::{
    Rng as _,
    RngCore as _,
    SeedableRng as _,
};
use rand_chacha::ChaChaRng;
use sequencer_client::{
    tendermint,
    tendermint_rpc,
};
use serde_json::json;
use vlog::VLog;

use super::{
    convert::decode_raw_blobs,
    ensure_commit_has_quorum,
    fetch::RawBlobs,
    reconstruct::reconstruct_blocks_from_verified_blobs,
    verify::{
        verify_metadata,
        BlobVerifier,
    },
};

const CHAIN_ID: &str = "verif-seq-0";

struct Val {
    key: SigningKey,
    pub_key: tendermint::PublicKey,
    address: tendermint::account::Id,
    power: u64,
}

fn make_val(rng: &mut ChaChaRng, power: u64) -> Val {
    let key = SigningKey::new(&mut *rng);
    let pub_key = tendermint::PublicKey::from_raw_ed25519(key.verification_key().as_ref()).unwrap();
    Val {
        address: tendermint::account::Id::from(pub_key),
        pub_key,
        key,
        power,
    }
}

fn validator_set(height: u64, vals: &[Val]) -> tendermint_rpc::endpoint::validators::Response {
    let infos = vals
        .iter()
        .map(|v| tendermint::validator::Info {
            address: v.address,
            pub_key: v.pub_key,
            power: tendermint::vote::Power::try_from(v.power).unwrap(),
            proposer_priority: 0.into(),
            name: None,
        })
        .collect::<Vec<_>>();
    let n = infos.len() as i32;
    tendermint_rpc::endpoint::validators::Response::new(
        tendermint::block::Height::try_from(height).unwrap(),
        infos,
        n,
    )
}

fn block_id(hash: [u8; 32]) -> tendermint::block::Id {
    tendermint::block::Id {
        hash: tendermint::Hash::Sha256(hash),
        part_set_header: tendermint::block::parts::Header::default(),
    }
}

/// How one entry of `commit.signatures` is built. The oracle only needs `validator`, `flag`, `sig`.
#[derive(Clone, Debug)]
struct SigSpec {
    validator: usize,      // index into vals; usize::MAX = a key that is not in the validator set
    flag: &'static str,    // commit | nil | absent
    sig: &'static str,     // valid | forged_other_key | wrong_chain | wrong_height | wrong_round | wrong_block | corrupt | empty
}

fn sign_vote(
    key: &SigningKey,
    chain_id: &str,
    height: u64,
    round: u16,
    bid: Option<tendermint::block::Id>,
    ts: tendermint::Time,
) -> tendermint::Signature {
    let canonical_vote = tendermint::vote::CanonicalVote {
        vote_type: tendermint::vote::Type::Precommit,
        height: tendermint::block::Height::try_from(height).unwrap(),
        round: round.into(),
        block_id: bid,
        timestamp: Some(ts),
        chain_id: chain_id.try_into().unwrap(),
    };
    let message = sequencer_client::tendermint_proto::types::CanonicalVote::from(canonical_vote)
        .encode_length_delimited_to_vec();
    let signature = key.sign(&message);
    signature.to_bytes().as_ref().try_into().unwrap()
}

fn make_commit(
    vals: &[Val],
    outsider: &Val,
    specs: &[SigSpec],
    chain_id: &str,
    height: u64,
    hash: [u8; 32],
) -> tendermint::block::Commit {
    let round = 0u16;
    let bid = block_id(hash);
    let mut signatures = vec![];
    for (k, s) in specs.iter().enumerate() {
        let ts = tendermint::Time::from_unix_timestamp(1_700_000_000 + k as i64, 7).unwrap();
        let v = if s.validator == usize::MAX { outsider } else { &vals[s.validator] };
        let mut other_hash = hash;
        other_hash[0] ^= 0x55;
        let sig: Option<tendermint::Signature> = match s.sig {
            "valid" => Some(sign_vote(&v.key, chain_id, height, round, Some(bid), ts)),
            "forged_other_key" => Some(sign_vote(&outsider.key, chain_id, height, round, Some(bid), ts)),
            "wrong_chain" => Some(sign_vote(&v.key, "other-chain", height, round, Some(bid), ts)),
            "wrong_height" => Some(sign_vote(&v.key, chain_id, height + 1, round, Some(bid), ts)),
            "wrong_round" => Some(sign_vote(&v.key, chain_id, height, round + 1, Some(bid), ts)),
            "wrong_block" => Some(sign_vote(&v.key, chain_id, height, round, Some(block_id(other_hash)), ts)),
            "nil_vote" => Some(sign_vote(&v.key, chain_id, height, round, None, ts)),
            "corrupt" => {
                let good = sign_vote(&v.key, chain_id, height, round, Some(bid), ts);
                let mut b = good.as_bytes().to_vec();
                b[5] ^= 0x40;
                Some(b.as_slice().try_into().unwrap())
            }
            "empty" => None,
            other => panic!("unknown sig class {other}"),
        };
        signatures.push(match s.flag {
            "commit" => tendermint::block::CommitSig::BlockIdFlagCommit {
                validator_address: v.address,
                timestamp: ts,
                signature: sig,
            },
            "nil" => tendermint::block::CommitSig::BlockIdFlagNil {
                validator_address: v.address,
                timestamp: ts,
                signature: sig,
            },
            _ => tendermint::block::CommitSig::BlockIdFlagAbsent,
        });
    }
    tendermint::block::Commit {
        height: tendermint::block::Height::try_from(height).unwrap(),
        round: round.into(),
        block_id: bid,
        signatures,
    }
}

fn specs_json(specs: &[SigSpec]) -> serde_json::Value {
    specs
        .iter()
        .map(|s| json!([if s.validator == usize::MAX { -1i64 } else { s.validator as i64 }, s.flag, s.sig]))
        .collect()
}

const ALPHABET: [u64; 10] = [1, 2, 3, 5, 10, 33, 34, 67, 100, 1 << 62];
const DEFECTS: [&str; 8] =
    ["forged_other_key", "wrong_chain", "wrong_height", "wrong_round", "wrong_block", "corrupt", "empty", "nil_vote"];

fn judge_quorum(log: &VLog, vals: &[Val], outsider: &Val, specs: &[SigSpec], class: &str, commit_height_delta: u64) {
    let height = 42u64;
    let hash = [9u8; 32];
    let commit = make_commit(vals, outsider, specs, CHAIN_ID, height + commit_height_delta, hash);
    let vset = validator_set(height, vals);
    let chain_id: tendermint::chain::Id = CHAIN_ID.try_into().unwrap();
    let res = vlog::guarded(|| ensure_commit_has_quorum(&commit, &vset, &chain_id));
    let (accepted, err) = match &res {
        Ok(Ok(())) => (true, String::new()),
        Ok(Err(e)) => (false, format!("{e:?}").split(|c: char| !c.is_alphanumeric()).next().unwrap_or("").to_string()),
        Err(p) => (false, format!("PANIC {p}")),
    };
    log.ev(json!({"kind": "quorum_case", "class": class,
        "powers": vals.iter().map(|v| v.power).collect::<Vec<_>>(),
        "entries": specs_json(specs), "commit_height_delta": commit_height_delta,
        "accepted": accepted, "err": err, "panic": res.is_err()}));
}

/// entry: exhaustive over power vectors (alphabet^n, n<=3 quick / n<=4 thorough) x all signer subsets, each with the
/// all-valid commit and a rotating set of defect variants; sampled for n = 4..=5.
#[test]
fn quorum_sweep() {
    let log = VLog::open("c09-quorum");
    let (shard, shards) = vlog::shard();
    let mut rng = ChaChaRng::seed_from_u64(vlog::seed() ^ 0xC09);
    // one fixed key set: signatures do not depend on the power assigned
    let keys: Vec<Val> = (0..5).map(|_| make_val(&mut rng, 1)).collect();
    let outsider = make_val(&mut rng, 1);
    let max_exh = if vlog::thorough() { 4 } else { 3 };
    let mut case_no = 0u64;
    let mut run_vector = |powers: &[u64], rng: &mut ChaChaRng, log: &VLog| {
        let n = powers.len();
        let vals: Vec<Val> = powers
            .iter()
            .enumerate()
            .map(|(i, p)| Val {
                key: keys[i].key.clone(),
                pub_key: keys[i].pub_key,
                address: keys[i].address,
                power: *p,
            })
            .collect();
        for mask in 0u32..(1 << n) {
            let signers: Vec<usize> = (0..n).filter(|i| mask & (1 << i) != 0).collect();
            let base: Vec<SigSpec> = (0..n)
                .map(|i| SigSpec {
                    validator: i,
                    flag: if mask & (1 << i) != 0 { "commit" } else { "absent" },
                    sig: if mask & (1 << i) != 0 { "valid" } else { "empty" },
                })
                .collect();
            judge_quorum(log, &vals, &outsider, &base, "all_valid", 0);
            if signers.is_empty() {
                continue;
            }
            // one signer's signature defective (rotating defect)
            let who = signers[rng.gen_range(0..signers.len())];
            let defect = DEFECTS[(case_no % DEFECTS.len() as u64) as usize];
            case_no += 1;
            let mut s = base.clone();
            if defect == "nil_vote" {
                s[who].flag = "nil";
            }
            s[who].sig = defect;
            judge_quorum(log, &vals, &outsider, &s, "one_defective", 0);
            // every signer duplicated once (same validator listed twice)
            for &d in &signers {
                let mut s = base.clone();
                s.push(SigSpec { validator: d, flag: "commit", sig: "valid" });
                judge_quorum(log, &vals, &outsider, &s, "duplicate_signer", 0);
            }
            // an absent validator replaced by duplicates of a signer, so len(signatures) == len(validators)
            if signers.len() < n {
                let mut s = base.clone();
                let d = signers[rng.gen_range(0..signers.len())];
                for e in s.iter_mut() {
                    if e.flag == "absent" {
                        *e = SigSpec { validator: d, flag: "commit", sig: "valid" };
                    }
                }
                judge_quorum(log, &vals, &outsider, &s, "absent_replaced_by_duplicate", 0);
            }
            if case_no % 7 == 0 {
                // a key outside the validator set signs as well
                let mut s = base.clone();
                s.push(SigSpec { validator: usize::MAX, flag: "commit", sig: "valid" });
                judge_quorum(log, &vals, &outsider, &s, "outsider_signs", 0);
                judge_quorum(log, &vals, &outsider, &base, "commit_height_mismatch", 1);
            }
        }
    };
    let mut idx = 0u64;
    for n in 1..=max_exh {
        let total = ALPHABET.len().pow(n as u32);
        for code in 0..total {
            idx += 1;
            if idx % shards != shard {
                continue;
            }
            let mut c = code;
            let powers: Vec<u64> = (0..n)
                .map(|_| {
                    let p = ALPHABET[c % ALPHABET.len()];
                    c /= ALPHABET.len();
                    p
                })
                .collect();
            run_vector(&powers, &mut rng, &log);
        }
    }
    // sampled larger sets, powers around thirds of random totals
    let samples = if vlog::thorough() { 4000 } else { 400 };
    for k in 0..samples {
        if k % shards != shard {
            continue;
        }
        let n = rng.gen_range((max_exh + 1).min(5)..=5);
        let powers: Vec<u64> = (0..n)
            .map(|_| match rng.gen_range(0..4) {
                0 => ALPHABET[rng.gen_range(0..ALPHABET.len())],
                1 => rng.gen_range(1..=12),
                2 => rng.gen_range(1..=1000),
                _ => rng.gen_range(1..=(1u64 << 61)),
            })
            .collect();
        run_vector(&powers, &mut rng, &log);
    }
    log.end();
}

// ------------------------------------------------------------------------------------------------ pipeline

#[derive(Clone)]
struct Served {
    signed_header: tendermint::block::signed_header::SignedHeader,
    validators: tendermint_rpc::endpoint::validators::Response,
}

fn signed_header(chain_id: &str, height: u64, commit: tendermint::block::Commit, proposer: tendermint::account::Id)
    -> tendermint::block::signed_header::SignedHeader {
    tendermint::block::signed_header::SignedHeader::new(
        tendermint::block::Header {
            version: tendermint::block::header::Version { block: 1, app: 1 },
            chain_id: chain_id.try_into().unwrap(),
            height: tendermint::block::Height::try_from(height).unwrap(),
            time: tendermint::time::Time::from_unix_timestamp(1, 1).unwrap(),
            last_block_id: None,
            last_commit_hash: None,
            data_hash: None,
            validators_hash: tendermint::Hash::Sha256([0; 32]),
            next_validators_hash: tendermint::Hash::Sha256([0; 32]),
            consensus_hash: tendermint::Hash::Sha256([0; 32]),
            app_hash: tendermint::AppHash::default(),
            last_results_hash: None,
            evidence_hash: None,
            proposer_address: proposer,
        },
        commit,
    )
    .unwrap()
}

async fn start_cometbft_mock(table: Arc<Mutex<HashMap<u64, Served>>>) -> wiremock::MockServer {
    use wiremock::{
        Mock,
        ResponseTemplate,
    };
    let server = wiremock::MockServer::start().await;
    Mock::given(wiremock::matchers::method("POST"))
        .respond_with(move |req: &wiremock::Request| {
            let body: serde_json::Value = serde_json::from_slice(&req.body).unwrap_or(json!({}));
            let method = body["method"].as_str().unwrap_or("").to_string();
            let height: u64 = body["params"]["height"].as_str().and_then(|h| h.parse().ok()).unwrap_or(0);
            let served = table.lock().unwrap().get(&height).cloned();
            match (method.as_str(), served) {
                ("commit", Some(s)) => ResponseTemplate::new(200).set_body_json(
                    tendermint_rpc::response::Wrapper::new_with_id(
                        tendermint_rpc::Id::uuid_v4(),
                        Some(tendermint_rpc::endpoint::commit::Response {
                            signed_header: s.signed_header,
                            canonical: true,
                        }),
                        None,
                    ),
                ),
                ("validators", Some(s)) => ResponseTemplate::new(200).set_body_json(
                    tendermint_rpc::response::Wrapper::new_with_id(tendermint_rpc::Id::uuid_v4(), Some(s.validators), None),
                ),
                // unknown height: a JSON-RPC level error (not retried by the client, unlike transport errors)
                _ => ResponseTemplate::new(200).set_body_json(json!({
                    "jsonrpc": "2.0", "id": "x",
                    "error": {"code": -32603, "message": "Internal error", "data": "height must be less than or equal to the current blockchain height"}
                })),
            }
        })
        .mount(&server)
        .await;
    server
}

fn compress_to_blob(ns: Namespace, raw: &[u8]) -> Blob {
    let data = astria_core::brotli::compress_bytes(raw).unwrap();
    Blob::new(ns, data, celestia_types::AppVersion::V3).unwrap()
}

fn rnd_bytes(rng: &mut ChaChaRng, n: usize) -> Vec<u8> {
    let mut v = vec![0u8; n];
    rng.fill_bytes(&mut v);
    v
}

fn tx_digests(txs: &[bytes::Bytes]) -> Vec<String> {
    use sha2::Digest as _;
    txs.iter().map(|t| vlog::hex(&sha2::Sha256::digest(t)[..8])).collect()
}

/// entry: one process runs `cases` scenarios against one loopback mock.
#[tokio::test(flavor = "multi_thread", worker_threads = 2)]
async fn pipeline() {
    let log = VLog::open("c09-pipeline");
    let (shard, shards) = vlog::shard();
    let mut rng = ChaChaRng::seed_from_u64(vlog::seed().wrapping_mul(1_000_003) ^ shard ^ 0xC0900);
    let table: Arc<Mutex<HashMap<u64, Served>>> = Arc::new(Mutex::new(HashMap::new()));
    let server = start_cometbft_mock(table.clone()).await;
    let cases = vlog::env_u64("VERIF_CASES", if vlog::thorough() { 400 } else { 40 });
    let target_rollup = RollupId::new([24; 32]);
    let other_rollups = [RollupId::new([25; 32]), RollupId::new([26; 32]), RollupId::new([27; 32])];
    let seq_ns = astria_core::celestia::namespace_v0_from_sha256_of_bytes(CHAIN_ID.as_bytes());
    let rollup_ns = astria_core::celestia::namespace_v0_from_rollup_id(target_rollup);

    // rollup state: whatever the crate's own test utility gives; heights are generated relative to it
    let (_state_tx, state_rx) = crate::state::channel(crate::test_utils::make_rollup_state(
        "verif-session".to_string(),
        crate::test_utils::make_execution_session_parameters(),
        crate::test_utils::make_commitment_state(),
    ));
    let first_height = state_rx.next_expected_firm_sequencer_height().value();
    let mut next_height = first_height;

    for case in 0..cases {
        let _ = shards;
        let client = sequencer_client::HttpClient::new(&*server.uri()).unwrap();
        let verifier = Arc::new(BlobVerifier::try_new(client, 2000).unwrap());
        // validator set of this case
        let nvals = rng.gen_range(1..=5usize);
        let vals: Vec<Val> = (0..nvals)
            .map(|_| {
                let p = match rng.gen_range(0..3) {
                    0 => ALPHABET[rng.gen_range(0..9)],
                    1 => rng.gen_range(1..=10),
                    _ => rng.gen_range(1..=1000),
                };
                make_val(&mut rng, p)
            })
            .collect();
        let outsider = make_val(&mut rng, 1);
        let total: u128 = vals.iter().map(|v| u128::from(v.power)).sum();
        let nblocks = rng.gen_range(1..=4usize);
        let mut metadata_raw = vec![];   // (id, raw)
        let mut rollup_raw = vec![];
        let mut item_no = 0u32;
        let mut blocks_info = vec![];
        for _ in 0..nblocks {
            let height = next_height;
            next_height += 1;
            let mut hash = [0u8; 32];
            rng.fill_bytes(&mut hash);
            // block content
            let has_target = rng.gen_bool(0.75);
            let mut sequence_data = vec![];
            if has_target {
                for _ in 0..rng.gen_range(1..=3) {
                    let n = rng.gen_range(0..40);
                    sequence_data.push((target_rollup, rnd_bytes(&mut rng, n)));
                }
            }
            for r in &other_rollups {
                if rng.gen_bool(0.4) {
                    sequence_data.push((*r, rnd_bytes(&mut rng, 12)));
                }
            }
            let proposer_key = SigningKey::new(&mut rng);
            let blk = ConfigureSequencerBlock {
                block_hash: Some(block::Hash::new(hash)),
                chain_id: Some(CHAIN_ID.to_string()),
                height: height as u32,
                sequence_data,
                unix_timestamp: (1i64, 1u32).into(),
                signing_key: Some(proposer_key),
                proposer_address: None,
                ..Default::default()
            }
            .make();
            let (meta, rollups) = blk.clone().split_for_celestia();
            // commit served for this height: choose how much power really signs
            let mode = rng.gen_range(0..10);
            let mut specs: Vec<SigSpec> = vec![];
            let mut order: Vec<usize> = (0..nvals).collect();
            for i in (1..order.len()).rev() {
                order.swap(i, rng.gen_range(0..=i));
            }
            match mode {
                0..=4 => {
                    // all sign
                    for &i in &order {
                        specs.push(SigSpec { validator: i, flag: "commit", sig: "valid" });
                    }
                }
                5 | 6 => {
                    // add signers until just above / just not above two thirds
                    let want_quorum = mode == 5;
                    let mut acc: u128 = 0;
                    for &i in &order {
                        let p = u128::from(vals[i].power);
                        if want_quorum {
                            if acc * 3 > total * 2 {
                                specs.push(SigSpec { validator: i, flag: "absent", sig: "empty" });
                            } else {
                                acc += p;
                                specs.push(SigSpec { validator: i, flag: "commit", sig: "valid" });
                            }
                        } else if (acc + p) * 3 > total * 2 {
                            specs.push(SigSpec { validator: i, flag: "absent", sig: "empty" });
                        } else {
                            acc += p;
                            specs.push(SigSpec { validator: i, flag: "commit", sig: "valid" });
                        }
                    }
                }
                7 => {
                    // below quorum, padded with duplicates of a signer
                    let mut acc: u128 = 0;
                    let mut first = None;
                    for &i in &order {
                        let p = u128::from(vals[i].power);
                        if (acc + p) * 3 > total * 2 {
                            if let Some(f) = first {
                                specs.push(SigSpec { validator: f, flag: "commit", sig: "valid" });
                            } else {
                                specs.push(SigSpec { validator: i, flag: "absent", sig: "empty" });
                            }
                        } else {
                            acc += p;
                            first.get_or_insert(i);
                            specs.push(SigSpec { validator: i, flag: "commit", sig: "valid" });
                        }
                    }
                }
                8 => {
                    // everybody "signs" but some with nil votes
                    for &i in &order {
                        if rng.gen_bool(0.5) {
                            specs.push(SigSpec { validator: i, flag: "nil", sig: "nil_vote" });
                        } else {
                            specs.push(SigSpec { validator: i, flag: "commit", sig: "valid" });
                        }
                    }
                }
                _ => {
                    // one signature defective
                    let bad = rng.gen_range(0..nvals);
                    for &i in &order {
                        let sig = if i == bad { DEFECTS[rng.gen_range(0..6)] } else { "valid" };
                        specs.push(SigSpec { validator: i, flag: "commit", sig });
                    }
                }
            }
            let commit = make_commit(&vals, &outsider, &specs, CHAIN_ID, height, hash);
            table.lock().unwrap().insert(height, Served {
                signed_header: signed_header(CHAIN_ID, height, commit, vals[0].address),
                validators: validator_set(height, &vals),
            });
            let honest_target_txs: Vec<bytes::Bytes> = rollups
                .iter()
                .find(|r| r.rollup_id() == target_rollup)
                .map(|r| r.transactions().to_vec())
                .unwrap_or_default();
            log.ev(json!({"kind": "served", "case": case, "height": height, "chain_id": CHAIN_ID, "hash": vlog::hex(&hash),
                "powers": vals.iter().map(|v| v.power).collect::<Vec<_>>(), "entries": specs_json(&specs),
                "block_has_target_rollup": has_target, "honest_target_txs": tx_digests(&honest_target_txs)}));
            blocks_info.push((height, hash, meta.clone(), rollups.clone()));

            // ---- metadata items posted for this block
            let mut post_meta = |class: &str, raw: astria_core::generated::astria::sequencerblock::v1::SubmittedMetadata,
                                 item_no: &mut u32, log: &VLog| {
                *item_no += 1;
                let decodable = SubmittedMetadata::try_from_raw(raw.clone()).is_ok();
                log.ev(json!({"kind": "posted_metadata", "case": case, "item": *item_no, "class": class,
                    "claimed_height": raw.header.as_ref().map(|h| h.height), "claimed_chain_id": raw.header.as_ref().map(|h| h.chain_id.clone()),
                    "hash": vlog::hex(&raw.block_hash), "decodable": decodable}));
                metadata_raw.push(raw);
            };
            if rng.gen_bool(0.85) {
                post_meta("honest", meta.clone().into_raw(), &mut item_no, &log);
            }
            if rng.gen_bool(0.5) {
                // same header, other block hash
                let mut raw = meta.clone().into_raw();
                raw.block_hash = rnd_bytes(&mut rng, 32).into();
                post_meta("wrong_hash", raw, &mut item_no, &log);
            }
            if rng.gen_bool(0.4) {
                let mut raw = meta.clone().into_raw();
                raw.header.as_mut().unwrap().chain_id = "evil-chain".to_string();
                post_meta("wrong_chain_id", raw, &mut item_no, &log);
            }
            if rng.gen_bool(0.4) {
                // a forged block for the same height: different content and hash, internally consistent
                let forged = ConfigureSequencerBlock {
                    block_hash: Some(block::Hash::new(rnd_bytes(&mut rng, 32).try_into().unwrap())),
                    chain_id: Some(CHAIN_ID.to_string()),
                    height: height as u32,
                    sequence_data: vec![(target_rollup, b"forged payload".to_vec())],
                    unix_timestamp: (1i64, 1u32).into(),
                    signing_key: Some(SigningKey::new(&mut rng)),
                    ..Default::default()
                }
                .make();
                let (fmeta, frollups) = forged.split_for_celestia();
                post_meta("forged_block_same_height", fmeta.into_raw(), &mut item_no, &log);
                for r in frollups {
                    item_no += 1;
                    log.ev(json!({"kind": "posted_rollup", "case": case, "item": item_no, "class": "forged_block_data",
                        "hash": vlog::hex(r.sequencer_block_hash().as_bytes()), "txs": tx_digests(r.transactions())}));
                    rollup_raw.push(r.into_raw());
                }
            }
            if rng.gen_bool(0.3) && blocks_info.len() >= 2 {
                // honest metadata of this block claiming the height of an earlier block of this case
                let other_h = blocks_info[0].0;
                let mut raw = meta.clone().into_raw();
                raw.header.as_mut().unwrap().height = other_h;
                post_meta("wrong_height", raw, &mut item_no, &log);
            }
            if rng.gen_bool(0.2) {
                post_meta("replayed_honest", meta.clone().into_raw(), &mut item_no, &log);
            }
            if rng.gen_bool(0.2) {
                // height for which the sequencer serves nothing
                let mut raw = meta.clone().into_raw();
                raw.header.as_mut().unwrap().height = 9_000_000 + height;
                post_meta("unknown_height", raw, &mut item_no, &log);
            }
            // ---- rollup data items
            for r in &rollups {
                let is_target = r.rollup_id() == target_rollup;
                let mut post_rollup = |class: &str, raw: astria_core::generated::astria::sequencerblock::v1::SubmittedRollupData,
                                       item_no: &mut u32, log: &VLog| {
                    *item_no += 1;
                    let txs: Vec<bytes::Bytes> = raw.transactions.clone();
                    log.ev(json!({"kind": "posted_rollup", "case": case, "item": *item_no, "class": class,
                        "hash": vlog::hex(&raw.sequencer_block_hash), "txs": tx_digests(&txs), "is_target_rollup": is_target}));
                    rollup_raw.push(raw);
                };
                if is_target {
                    // hostile variants are posted *before* the honest one half of the time
                    let hostile_first = rng.gen_bool(0.5);
                    let mut hostile = vec![];
                    if rng.gen_bool(0.5) {
                        let mut raw = r.clone().into_raw();
                        if raw.transactions.is_empty() {
                            raw.transactions.push(bytes::Bytes::from_static(b"x"));
                        } else {
                            let k = rng.gen_range(0..raw.transactions.len());
                            let mut t = raw.transactions[k].to_vec();
                            t.push(1);
                            raw.transactions[k] = t.into();
                        }
                        hostile.push(("tampered_tx", raw));
                    }
                    if rng.gen_bool(0.3) {
                        let mut raw = r.clone().into_raw();
                        raw.transactions.push(bytes::Bytes::from_static(b"appended"));
                        hostile.push(("appended_tx", raw));
                    }
                    if rng.gen_bool(0.3) && r.transactions().len() >= 2 {
                        let mut raw = r.clone().into_raw();
                        raw.transactions.pop();
                        hostile.push(("truncated_txs", raw));
                    }
                    if rng.gen_bool(0.3) && r.transactions().len() >= 2 && r.transactions()[0] != r.transactions()[1] {
                        let mut raw = r.clone().into_raw();
                        raw.transactions.swap(0, 1);
                        hostile.push(("reordered_txs", raw));
                    }
                    if rng.gen_bool(0.3) {
                        let mut raw = r.clone().into_raw();
                        if let Some(p) = raw.proof.as_mut() {
                            if p.audit_path.is_empty() {
                                p.audit_path = vec![0u8; 32].into();
                            } else {
                                let mut ap = p.audit_path.to_vec();
                                ap[3] ^= 1;
                                p.audit_path = ap.into();
                            }
                        }
                        hostile.push(("bad_proof", raw));
                    }
                    if hostile_first {
                        for (c, raw) in hostile.drain(..) {
                            post_rollup(c, raw, &mut item_no, &log);
                        }
                    }
                    if rng.gen_bool(0.9) {
                        post_rollup("honest", r.clone().into_raw(), &mut item_no, &log);
                    }
                    for (c, raw) in hostile.drain(..) {
                        post_rollup(c, raw, &mut item_no, &log);
                    }
                    if rng.gen_bool(0.2) {
                        let mut raw = r.clone().into_raw();
                        raw.sequencer_block_hash = rnd_bytes(&mut rng, 32).into();
                        post_rollup("wrong_block_hash", raw, &mut item_no, &log);
                    }
                } else if rng.gen_bool(0.3) {
                    // another rollup's data re-labelled as the target rollup's (posted in the target namespace)
                    let mut raw = r.clone().into_raw();
                    raw.rollup_id = Some(target_rollup.into_raw());
                    post_rollup("relabelled_other_rollup", raw, &mut item_no, &log);
                }
            }
        }
        // data of one block attributed to another block of the case
        if blocks_info.len() >= 2 && rng.gen_bool(0.5) {
            let (_, _, _, rollups_a) = &blocks_info[0];
            let (_, hash_b, _, _) = &blocks_info[1];
            if let Some(r) = rollups_a.iter().find(|r| r.rollup_id() == target_rollup) {
                let mut raw = r.clone().into_raw();
                raw.sequencer_block_hash = hash_b.to_vec().into();
                item_no += 1;
                log.ev(json!({"kind": "posted_rollup", "case": case, "item": item_no, "class": "data_of_other_block",
                    "hash": vlog::hex(hash_b), "txs": tx_digests(&raw.transactions), "is_target_rollup": true}));
                rollup_raw.push(raw);
            }
        }
        // ---- shuffle and pack into blobs (several lists per namespace), add junk blobs
        for i in (1..metadata_raw.len()).rev() {
            metadata_raw.swap(i, rng.gen_range(0..=i));
        }
        let mut header_blobs = vec![];
        let mut rollup_blobs = vec![];
        // each metadata entry in its own list: a malformed neighbour must not take honest entries down with it
        for raw in &metadata_raw {
            header_blobs.push(compress_to_blob(seq_ns, &SubmittedMetadataList { entries: vec![raw.clone()] }.encode_to_vec()));
        }
        for raw in &rollup_raw {
            rollup_blobs.push(compress_to_blob(rollup_ns, &SubmittedRollupDataList { entries: vec![raw.clone()] }.encode_to_vec()));
        }
        let mut junk = 0;
        for _ in 0..rng.gen_range(0..4) {
            junk += 1;
            let n = rng.gen_range(0..200);
            let bytes = rnd_bytes(&mut rng, n);
            match rng.gen_range(0..4) {
                0 => header_blobs.push(Blob::new(seq_ns, bytes, celestia_types::AppVersion::V3).unwrap()),
                1 => rollup_blobs.push(Blob::new(rollup_ns, bytes, celestia_types::AppVersion::V3).unwrap()),
                2 => header_blobs.push(compress_to_blob(seq_ns, &bytes)),
                _ => {
                    // wrong namespace in the header list, and a metadata list posted to the rollup namespace
                    header_blobs.push(compress_to_blob(rollup_ns, &bytes));
                    if let Some(raw) = metadata_raw.first() {
                        rollup_blobs.push(compress_to_blob(rollup_ns, &SubmittedMetadataList { entries: vec![raw.clone()] }.encode_to_vec()));
                    }
                }
            }
        }
        if rng.gen_bool(0.3) && !header_blobs.is_empty() {
            // truncated brotli stream of a real blob
            let b = &header_blobs[0];
            let cut = b.data.len() / 2;
            header_blobs.push(Blob::new(seq_ns, b.data[..cut].to_vec(), celestia_types::AppVersion::V3).unwrap());
            junk += 1;
        }
        let celestia_height = 1000 + case;
        let raw_blobs = RawBlobs { celestia_height, header_blobs, rollup_blobs };
        let (nh, nr) = (raw_blobs.len_header_blobs(), raw_blobs.len_rollup_blobs());
        let decoded = match vlog::guarded(|| decode_raw_blobs(raw_blobs, rollup_ns, seq_ns)) {
            Ok(d) => d,
            Err(p) => {
                log.ev(json!({"kind": "panic", "case": case, "stage": "decode_raw_blobs", "loc": p}));
                continue;
            }
        };
        let (dh, dr) = (decoded.len_headers(), decoded.len_rollup_data_entries());
        let verified = verify_metadata(verifier.clone(), decoded, state_rx.clone()).await;
        let vh = verified.len_header_blobs();
        let reconstructed = match vlog::guarded(|| reconstruct_blocks_from_verified_blobs(verified, target_rollup)) {
            Ok(r) => r,
            Err(p) => {
                log.ev(json!({"kind": "panic", "case": case, "stage": "reconstruct", "loc": p}));
                continue;
            }
        };
        for r in &reconstructed {
            log.ev(json!({"kind": "reconstructed", "case": case, "height": r.header.height().value(),
                "chain_id": r.header.chain_id().as_str(), "hash": vlog::hex(r.block_hash.as_bytes()),
                "txs": tx_digests(&r.transactions)}));
        }
        log.ev(json!({"kind": "case_done", "case": case, "blobs_header": nh, "blobs_rollup": nr, "junk": junk,
            "decoded_metadata": dh, "decoded_rollup": dr, "verified_metadata": vh, "reconstructed": reconstructed.len(),
            "first_height": first_height}));
    }
    log.end();
}
