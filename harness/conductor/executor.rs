//! C10 harness (child module of `astria_conductor::executor`, compiled only with `--features verif` in test builds).
//!
//! The real executor event loop (`Initialized::run`) is built on harness-owned block channels (no readers) and driven
//! with delivery words over soft / firm blocks (firm first, long soft leads, duplicates, stale, out-of-order), against a
//! real tonic `ExecutionService` server on loopback that records every ExecuteBlock / UpdateCommitmentState it sees
//! (optionally answering with a delay). /verif/lib/checkers/c10.py judges the recorded RPC log.
#![allow(clippy::pedantic, clippy::arithmetic_side_effects, dead_code, unused_imports)]

#[path = "/verif/harness/common/vlog.rs"]
mod vlog;

use std::{
    collections::HashMap,
    sync::{
        atomic::{
            AtomicU64,
            Ordering,
        },
        Arc,
        Mutex,
    },
    time::Duration,
};

use astria_core::{
    execution::v2::ExecutionSession,
    generated::astria::execution::v2 as raw,
    primitive::v1::RollupId,
    protocol::test_utils::ConfigureSequencerBlock,
    sequencerblock::v1::block,
    Protobuf as _,
};
use rand::{
    Rng as _,
    SeedableRng as _,
};
use rand_chacha::ChaChaRng;
use serde_json::json;
use telemetry::Metrics as _;
use tokio_util::{
    sync::CancellationToken,
    task::JoinMap,
};
use vlog::VLog;

use super::{
    create_block_channels,
    Channels,
    Client,
    Initialized,
};
use crate::{
    celestia::ReconstructedBlock,
    config::CommitLevel,
    state::State,
    Config,
    Metrics,
};

const ROLLUP: [u8; 32] = [24; 32];

#[derive(Default)]
struct RollupLog {
    events: Vec<serde_json::Value>,
    by_hash: HashMap<String, u64>, // rollup block hash -> number
    counter: u64,
    delay_ms: u64,
}

#[derive(Clone)]
struct FakeRollup {
    inner: Arc<Mutex<RollupLog>>,
    in_flight: Arc<AtomicU64>,
    calls: Arc<AtomicU64>,
}

#[async_trait::async_trait]
impl raw::execution_service_server::ExecutionService for FakeRollup {
    async fn create_execution_session(
        self: Arc<Self>,
        _: tonic::Request<raw::CreateExecutionSessionRequest>,
    ) -> Result<tonic::Response<raw::ExecutionSession>, tonic::Status> {
        Err(tonic::Status::unimplemented("not used by the harness"))
    }

    async fn get_executed_block_metadata(
        self: Arc<Self>,
        req: tonic::Request<raw::GetExecutedBlockMetadataRequest>,
    ) -> Result<tonic::Response<raw::ExecutedBlockMetadata>, tonic::Status> {
        self.calls.fetch_add(1, Ordering::SeqCst);
        let mut g = self.inner.lock().unwrap();
        let number = match req.get_ref().identifier.as_ref().and_then(|i| i.identifier.clone()) {
            Some(raw::executed_block_identifier::Identifier::Number(n)) => Some(n),
            _ => None,
        };
        // blocks executed in an earlier session (the genesis chain g0..g{soft0}) and blocks executed in this one
        let found = number.and_then(|n| g.by_hash.iter().find(|(_, v)| **v == n).map(|(h, _)| (n, h.clone())));
        g.events.push(json!({"rpc": "get_executed_block_metadata", "number": number, "found": found.as_ref().map(|f| f.1.clone())}));
        match found {
            Some((n, h)) => Ok(tonic::Response::new(meta(n, &h, ""))),
            None => Err(tonic::Status::not_found("no such block")),
        }
    }

    async fn execute_block(
        self: Arc<Self>,
        req: tonic::Request<raw::ExecuteBlockRequest>,
    ) -> Result<tonic::Response<raw::ExecuteBlockResponse>, tonic::Status> {
        self.in_flight.fetch_add(1, Ordering::SeqCst);
        self.calls.fetch_add(1, Ordering::SeqCst);
        let r = req.into_inner();
        let (delay, meta) = {
            let mut g = self.inner.lock().unwrap();
            g.counter += 1;
            let parent_number = g.by_hash.get(&r.parent_hash).copied();
            let number = parent_number.map_or(1_000_000 + g.counter, |n| n + 1);
            let hash = format!("x{:04}", g.counter);
            g.by_hash.insert(hash.clone(), number);
            let meta = raw::ExecutedBlockMetadata {
                number,
                hash: hash.clone(),
                parent_hash: r.parent_hash.clone(),
                timestamp: r.timestamp.clone(),
                sequencer_block_hash: r.sequencer_block_hash.clone(),
            };
            g.events.push(json!({"rpc": "execute_block", "parent_hash": r.parent_hash, "parent_known": parent_number.is_some(), "session": r.session_id,
                "sequencer_block_hash": r.sequencer_block_hash, "n_txs": r.transactions.len(), "returned_number": number, "returned_hash": hash}));
            (g.delay_ms, meta)
        };
        if delay > 0 {
            tokio::time::sleep(Duration::from_millis(delay)).await;
        }
        self.in_flight.fetch_sub(1, Ordering::SeqCst);
        Ok(tonic::Response::new(raw::ExecuteBlockResponse { executed_block_metadata: Some(meta) }))
    }

    async fn update_commitment_state(
        self: Arc<Self>,
        req: tonic::Request<raw::UpdateCommitmentStateRequest>,
    ) -> Result<tonic::Response<raw::CommitmentState>, tonic::Status> {
        self.in_flight.fetch_add(1, Ordering::SeqCst);
        self.calls.fetch_add(1, Ordering::SeqCst);
        let r = req.into_inner();
        let cs = r.commitment_state.clone().unwrap_or_default();
        let delay = {
            let mut g = self.inner.lock().unwrap();
            let m = |x: &Option<raw::ExecutedBlockMetadata>| x.as_ref().map(|b| json!({"number": b.number, "hash": b.hash, "sequencer_block_hash": b.sequencer_block_hash}));
            g.events.push(json!({"rpc": "update_commitment_state", "session": r.session_id, "firm": m(&cs.firm_executed_block_metadata),
                "soft": m(&cs.soft_executed_block_metadata), "lowest_celestia_search_height": cs.lowest_celestia_search_height}));
            g.delay_ms
        };
        if delay > 0 {
            tokio::time::sleep(Duration::from_millis(delay)).await;
        }
        self.in_flight.fetch_sub(1, Ordering::SeqCst);
        Ok(tonic::Response::new(cs))
    }
}

fn seq_hash(height: u64) -> [u8; 32] {
    use sha2::Digest as _;
    sha2::Sha256::digest(height.to_le_bytes()).into()
}

fn meta(number: u64, hash: &str, parent: &str) -> raw::ExecutedBlockMetadata {
    raw::ExecutedBlockMetadata {
        number,
        hash: hash.to_string(),
        parent_hash: parent.to_string(),
        timestamp: Some(pbjson_types::Timestamp { seconds: 1, nanos: 0 }),
        sequencer_block_hash: String::new(),
    }
}

fn config(level: CommitLevel, url: &str) -> Config {
    Config {
        celestia_block_time_ms: 12000,
        celestia_node_http_url: "http://127.0.0.1:1".into(),
        no_celestia_auth: true,
        celestia_bearer_token: String::new(),
        sequencer_grpc_url: "http://127.0.0.1:1".into(),
        sequencer_cometbft_url: "http://127.0.0.1:1".into(),
        sequencer_requests_per_second: 500,
        sequencer_block_time_ms: 2000,
        execution_rpc_url: url.into(),
        log: "off".into(),
        execution_commit_level: level,
        force_stdout: false,
        no_otel: true,
        no_metrics: true,
        metrics_http_listener_addr: String::new(),
    }
}

fn soft_block(height: u64) -> astria_core::sequencerblock::v1::block::FilteredSequencerBlock {
    ConfigureSequencerBlock {
        block_hash: Some(block::Hash::new(seq_hash(height))),
        chain_id: Some("verif-seq".to_string()),
        height: height as u32,
        sequence_data: vec![(RollupId::new(ROLLUP), format!("tx@{height}").into_bytes())],
        unix_timestamp: (1i64, 1u32).into(),
        ..Default::default()
    }
    .make()
    .into_filtered_block([RollupId::new(ROLLUP)])
}

fn firm_block(height: u64) -> Box<ReconstructedBlock> {
    let b = ConfigureSequencerBlock {
        block_hash: Some(block::Hash::new(seq_hash(height))),
        chain_id: Some("verif-seq".to_string()),
        height: height as u32,
        sequence_data: vec![(RollupId::new(ROLLUP), format!("tx@{height}").into_bytes())],
        unix_timestamp: (1i64, 1u32).into(),
        ..Default::default()
    }
    .make();
    Box::new(ReconstructedBlock {
        celestia_height: 100 + height,
        block_hash: *b.block_hash(),
        header: b.header().clone(),
        // what the Celestia rollup blob carries: the encoded RollupData items of this rollup
        transactions: b.rollup_transactions().get(&RollupId::new(ROLLUP)).map(|t| t.transactions().to_vec()).unwrap_or_default(),
        extended_commit_info: None,
    })
}

/// One delivery word against one fresh executor. Symbols: ('S'|'F', offset from the first expected sequencer height).
async fn run_word(log: &VLog, rollup: &FakeRollup, url: &str, level: CommitLevel, firm0: u64, soft0: u64, lookahead: u64, word: &[(char, i64)], delay_ms: u64, mode: &str) {
    // reset the fake rollup: genesis chain g1..g{soft0}
    {
        let mut g = rollup.inner.lock().unwrap();
        *g = RollupLog::default();
        g.delay_ms = delay_ms;
        for n in 0..=soft0 {
            g.by_hash.insert(format!("g{n}"), n);
        }
    }
    let rollup_start = 1u64;
    let seq_start = 10u64;
    let session = ExecutionSession::try_from_raw(raw::ExecutionSession {
        session_id: "verif".into(),
        execution_session_parameters: Some(raw::ExecutionSessionParameters {
            rollup_id: Some(RollupId::new(ROLLUP).into_raw()),
            rollup_start_block_number: rollup_start,
            rollup_end_block_number: 0,
            sequencer_chain_id: "verif-seq".into(),
            sequencer_start_block_height: seq_start,
            celestia_chain_id: "verif-cel".into(),
            celestia_search_height_max_look_ahead: lookahead,
        }),
        commitment_state: Some(raw::CommitmentState {
            soft_executed_block_metadata: Some(meta(soft0, &format!("g{soft0}"), &format!("g{}", soft0.saturating_sub(1)))),
            firm_executed_block_metadata: Some(meta(firm0, &format!("g{firm0}"), &format!("g{}", firm0.saturating_sub(1)))),
            lowest_celestia_search_height: 1,
        }),
    })
    .unwrap();
    let state = match State::try_from_execution_session(&session, level) {
        Ok(s) => s,
        Err(e) => {
            log.ev(json!({"kind": "word_skipped", "why": format!("{e}")}));
            return;
        }
    };
    let (state_tx, _state_rx) = crate::state::channel(state);
    let first_soft = state_tx.next_expected_soft_sequencer_height().value();
    let first_firm = state_tx.next_expected_firm_sequencer_height().value();
    let Channels { firm_sender, firm_receiver, soft_sender, soft_receiver } = match create_block_channels(level, &state_tx) {
        Ok(c) => c,
        Err(e) => {
            log.ev(json!({"kind": "word_skipped", "why": format!("{e}")}));
            return;
        }
    };
    let metrics: &'static Metrics = Box::leak(Box::new(Metrics::noop_metrics(&()).unwrap()));
    let init = Initialized {
        config: config(level, url),
        client: Client::connect_lazy(url).unwrap(),
        firm_blocks: firm_receiver,
        soft_blocks: soft_receiver,
        shutdown: CancellationToken::new(),
        state: state_tx,
        blocks_pending_finalization: HashMap::new(),
        metrics,
        reader_tasks: JoinMap::new(),
        reader_cancellation_token: CancellationToken::new(),
    };
    let handle = tokio::spawn(init.run());
    let base = if level == CommitLevel::FirmOnly { first_firm } else { first_soft.min(first_firm) } as i64;
    let mut deliveries = vec![];
    for (kind, off) in word {
        let h = (base + off).max(1) as u64;
        let calls_before = rollup.calls.load(Ordering::SeqCst);
        let sent = if *kind == 'S' {
            soft_sender.try_send(soft_block(h)).is_ok()
        } else {
            firm_sender.try_send(firm_block(h)).is_ok()
        };
        // the position in the server's log at which this delivery was made
        let at = rollup.inner.lock().unwrap().events.len();
        deliveries.push(json!([kind.to_string(), h, sent, at]));
        // quiescence: no RPC in flight and no new RPC for a few polls (bounded; a blocked soft block simply stays queued)
        let mut stable = 0;
        let mut last = rollup.calls.load(Ordering::SeqCst);
        for i in 0..400 {
            tokio::time::sleep(Duration::from_millis(1)).await;
            let now = rollup.calls.load(Ordering::SeqCst);
            let idle = rollup.in_flight.load(Ordering::SeqCst) == 0 && now == last;
            last = now;
            stable = if idle { stable + 1 } else { 0 };
            let drained = soft_sender.capacity() == soft_sender.max_capacity() && firm_sender.capacity() == firm_sender.max_capacity();
            if handle.is_finished() || (stable >= 4 && (drained || now > calls_before || i > 30)) {
                break;
            }
        }
    }
    drop(soft_sender);
    drop(firm_sender);
    let outcome = match tokio::time::timeout(Duration::from_secs(5), handle).await {
        Ok(Ok(Ok(_))) => "stopped_ok".to_string(),
        Ok(Ok(Err(e))) => format!("stopped_err:{}", format!("{e:#}").chars().take(140).collect::<String>()),
        Ok(Err(e)) => format!("task_panicked:{e}"),
        Err(_) => "watchdog".to_string(),
    };
    let events = std::mem::take(&mut rollup.inner.lock().unwrap().events);
    log.ev(json!({"kind": "exec_word", "mode": mode, "level": format!("{level:?}"), "firm0": firm0, "soft0": soft0, "lookahead": lookahead, "delay_ms": delay_ms,
        "first_expected_soft": first_soft, "first_expected_firm": first_firm, "seq_start": seq_start, "rollup_start": rollup_start,
        "deliveries": deliveries, "rpcs": events, "outcome": outcome,
        "seq_hash": (base - 2..base + 60).map(|h| json!([h, vlog::hex(&seq_hash(h.max(0) as u64))])).collect::<Vec<_>>()}));
}

#[tokio::test(flavor = "multi_thread", worker_threads = 3)]
async fn delivery_words() {
    let log = VLog::open("c10-executor");
    let (shard, shards) = vlog::shard();
    let rollup = FakeRollup { inner: Arc::new(Mutex::new(RollupLog::default())), in_flight: Arc::new(AtomicU64::new(0)), calls: Arc::new(AtomicU64::new(0)) };
    let listener = tokio::net::TcpListener::bind("127.0.0.1:0").await.unwrap();
    let addr = listener.local_addr().unwrap();
    let svc = raw::execution_service_server::ExecutionServiceServer::new(rollup.clone());
    tokio::spawn(async move {
        tonic::transport::Server::builder()
            .add_service(svc)
            .serve_with_incoming(tokio_stream::wrappers::TcpListenerStream::new(listener))
            .await
            .unwrap();
    });
    let url = format!("http://{addr}");
    let max_len = vlog::env_u64("VERIF_WORD_LEN", 4) as usize;
    // alphabet: soft / firm deliveries for the first three heights
    let alphabet: Vec<(char, i64)> = vec![('S', 0), ('S', 1), ('S', 2), ('F', 0), ('F', 1), ('F', 2)];
    let mut idx = 0u64;
    for level in [CommitLevel::SoftAndFirm, CommitLevel::SoftOnly, CommitLevel::FirmOnly] {
        for len in 1..=max_len {
            for code in 0..alphabet.len().pow(len as u32) {
                idx += 1;
                if idx % shards != shard {
                    continue;
                }
                let mut c = code;
                let word: Vec<(char, i64)> = (0..len).map(|_| { let s = alphabet[c % alphabet.len()]; c /= alphabet.len(); s }).collect();
                // soft-only never receives firm blocks and vice versa: such words are not deliverable by the readers
                if level == CommitLevel::SoftOnly && word.iter().any(|(k, _)| *k == 'F') {
                    continue;
                }
                if level == CommitLevel::FirmOnly && word.iter().any(|(k, _)| *k == 'S') {
                    continue;
                }
                run_word(&log, &rollup, &url, level, 1, 1, 3, &word, 0, "exhaustive").await;
            }
        }
    }
    // random longer schedules: session offsets (soft ahead of firm at start), look-ahead, response delays, duplicates, stale, skips
    let mut rng = ChaChaRng::seed_from_u64(vlog::seed().wrapping_mul(613) ^ 0xC10 ^ (shard << 20));
    let n = vlog::env_u64("VERIF_RANDOM_WORDS", 150);
    for _ in 0..n {
        let level = [CommitLevel::SoftAndFirm, CommitLevel::SoftAndFirm, CommitLevel::SoftOnly, CommitLevel::FirmOnly][rng.gen_range(0..4)];
        let firm0 = rng.gen_range(1..4u64);
        let soft0 = firm0 + if rng.gen_bool(0.5) { 0 } else { rng.gen_range(1..3) };
        let lookahead = rng.gen_range(1..6u64);
        let len = rng.gen_range(3..14);
        // offsets are relative to the lowest first-expected height; soft starts (soft0 - firm0) above it
        let mut next_s = if level == CommitLevel::FirmOnly { 0 } else { (soft0 - firm0) as i64 };
        let mut next_f = 0i64;
        let mut word = vec![];
        for _ in 0..len {
            let soft_turn = match level {
                CommitLevel::SoftOnly => true,
                CommitLevel::FirmOnly => false,
                CommitLevel::SoftAndFirm => rng.gen_bool(0.55),
            };
            let (kind, next) = if soft_turn { ('S', &mut next_s) } else { ('F', &mut next_f) };
            let off = match rng.gen_range(0..10) {
                0 => (*next - 1).max(0),          // duplicate of the last one
                1 => (*next - 2).max(0),          // stale
                2 => *next + 1,                   // skips one (out of order)
                _ => {
                    let o = *next;
                    *next += 1;
                    o
                }
            };
            word.push((kind, off));
        }
        let delay = if rng.gen_bool(0.3) { rng.gen_range(1..6) } else { 0 };
        run_word(&log, &rollup, &url, level, firm0, soft0, lookahead, &word, delay, "random").await;
    }
    log.end();
}
