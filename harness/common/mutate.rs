//! Structure-aware mutation of protobuf encodings (std only; shared by vh-wire and the in-crate decoder entries).
//!
//! A tiny wire-format walker is used to delete / duplicate / reorder fields, rewrite varints to boundary values and
//! corrupt length prefixes at every nesting level (so proof indices and sizes deep inside blocks are reached), next to
//! byte-level operators (truncation at every offset, byte flips, splices, random bytes).
#![allow(dead_code)]

pub struct Rng(pub u64);
impl Rng {
    pub fn next(&mut self) -> u64 {
        self.0 = self.0.wrapping_add(0x9E37_79B9_7F4A_7C15);
        let mut z = self.0;
        z = (z ^ (z >> 30)).wrapping_mul(0xBF58_476D_1CE4_E5B9);
        z = (z ^ (z >> 27)).wrapping_mul(0x94D0_49BB_1331_11EB);
        z ^ (z >> 31)
    }

    pub fn below(&mut self, n: usize) -> usize {
        if n == 0 { 0 } else { (self.next() % n as u64) as usize }
    }
}

#[derive(Clone, Debug)]
pub struct Field {
    pub number: u64,
    pub wire_type: u8,
    pub start: usize,      // offset of the tag
    pub value_start: usize, // offset of the payload (after tag and, for LEN, after the length prefix)
    pub end: usize,        // one past the last byte of the field
    pub varint: u64,       // value for VARINT fields, length for LEN fields
}

fn read_varint(b: &[u8], mut i: usize) -> Option<(u64, usize)> {
    let mut v = 0u64;
    let mut shift = 0;
    loop {
        let x = *b.get(i)?;
        i += 1;
        if shift >= 64 {
            return None;
        }
        v |= u64::from(x & 0x7F) << shift;
        if x & 0x80 == 0 {
            return Some((v, i));
        }
        shift += 7;
    }
}

pub fn write_varint(mut v: u64, out: &mut Vec<u8>) {
    loop {
        let b = (v & 0x7F) as u8;
        v >>= 7;
        if v == 0 {
            out.push(b);
            return;
        }
        out.push(b | 0x80);
    }
}

/// Parses `b` as a sequence of fields; `None` if it is not a well-formed message.
pub fn parse(b: &[u8]) -> Option<Vec<Field>> {
    let mut i = 0;
    let mut out = vec![];
    while i < b.len() {
        let start = i;
        let (tag, j) = read_varint(b, i)?;
        let (number, wt) = (tag >> 3, (tag & 7) as u8);
        if number == 0 {
            return None;
        }
        let (value_start, end, varint) = match wt {
            0 => {
                let (v, k) = read_varint(b, j)?;
                (j, k, v)
            }
            1 => (j, j.checked_add(8)?, 0),
            5 => (j, j.checked_add(4)?, 0),
            2 => {
                let (len, k) = read_varint(b, j)?;
                (k, k.checked_add(usize::try_from(len).ok()?)?, len)
            }
            _ => return None,
        };
        if end > b.len() {
            return None;
        }
        out.push(Field { number, wire_type: wt, start, value_start, end, varint });
        i = end;
    }
    Some(out)
}

fn field_bytes(number: u64, wt: u8, payload: &[u8], out: &mut Vec<u8>) {
    write_varint((number << 3) | u64::from(wt), out);
    if wt == 2 {
        write_varint(payload.len() as u64, out);
    }
    out.extend_from_slice(payload);
}

const EXTREMES: [u64; 9] = [0, 1, 2, 1 << 31, 1 << 32, (1 << 63) - 1, 1 << 63, u64::MAX - 1, u64::MAX];

/// Mutants of one message level. `depth` limits recursion into nested messages.
fn level_mutants(b: &[u8], rng: &mut Rng, depth: u32, per_op: usize, out: &mut Vec<(String, Vec<u8>)>, path: &str) {
    let Some(fields) = parse(b) else { return };
    if fields.is_empty() {
        return;
    }
    let pick = |rng: &mut Rng| fields[rng.below(fields.len())].clone();
    for _ in 0..per_op {
        // delete a field
        let f = pick(rng);
        let mut m = b[..f.start].to_vec();
        m.extend_from_slice(&b[f.end..]);
        out.push((format!("delete_field{path}/{}", f.number), m));
        // duplicate a field
        let f = pick(rng);
        let mut m = b[..f.end].to_vec();
        m.extend_from_slice(&b[f.start..f.end]);
        m.extend_from_slice(&b[f.end..]);
        out.push((format!("duplicate_field{path}/{}", f.number), m));
        // move a field to the front
        let f = pick(rng);
        let mut m = b[f.start..f.end].to_vec();
        m.extend_from_slice(&b[..f.start]);
        m.extend_from_slice(&b[f.end..]);
        out.push((format!("reorder_field{path}/{}", f.number), m));
    }
    for f in &fields {
        match f.wire_type {
            0 => {
                for v in EXTREMES {
                    if v == f.varint {
                        continue;
                    }
                    let mut m = b[..f.start].to_vec();
                    write_varint((f.number << 3) | 0, &mut m);
                    write_varint(v, &mut m);
                    m.extend_from_slice(&b[f.end..]);
                    out.push((format!("varint_extreme{path}/{}", f.number), m));
                }
                // off by one
                for v in [f.varint.wrapping_add(1), f.varint.wrapping_sub(1), f.varint.wrapping_mul(2), f.varint.wrapping_mul(2).wrapping_add(1)] {
                    let mut m = b[..f.start].to_vec();
                    write_varint((f.number << 3) | 0, &mut m);
                    write_varint(v, &mut m);
                    m.extend_from_slice(&b[f.end..]);
                    out.push((format!("varint_nudge{path}/{}", f.number), m));
                }
            }
            2 => {
                let payload = &b[f.value_start..f.end];
                // corrupt the length prefix, content untouched
                for newlen in [0u64, f.varint.wrapping_sub(1), f.varint + 1, f.varint + 1000, u64::from(u32::MAX), u64::MAX >> 1] {
                    if newlen == f.varint {
                        continue;
                    }
                    let mut m = b[..f.start].to_vec();
                    write_varint((f.number << 3) | 2, &mut m);
                    write_varint(newlen, &mut m);
                    m.extend_from_slice(payload);
                    m.extend_from_slice(&b[f.end..]);
                    out.push((format!("length_prefix{path}/{}", f.number), m));
                }
                // content emptied / extended / one byte flipped / one element (32 bytes) appended or removed
                let mut variants: Vec<(&str, Vec<u8>)> = vec![("empty_bytes", vec![])];
                let mut p = payload.to_vec();
                p.push(0);
                variants.push(("extend_bytes", p));
                if !payload.is_empty() {
                    let mut p = payload.to_vec();
                    let k = rng.below(p.len());
                    p[k] ^= 1 << rng.below(8);
                    variants.push(("flip_in_bytes", p));
                    variants.push(("shorten_bytes", payload[..payload.len() - 1].to_vec()));
                }
                if payload.len() % 32 == 0 {
                    let mut p = payload.to_vec();
                    p.extend_from_slice(&[0xAB; 32]);
                    variants.push(("append_32_bytes", p));
                    if payload.len() >= 32 {
                        variants.push(("remove_32_bytes", payload[..payload.len() - 32].to_vec()));
                    }
                }
                for (name, p) in variants {
                    let mut m = b[..f.start].to_vec();
                    field_bytes(f.number, 2, &p, &mut m);
                    m.extend_from_slice(&b[f.end..]);
                    out.push((format!("{name}{path}/{}", f.number), m));
                }
                // recurse: mutate the nested message and re-wrap it with a correct length
                if depth > 0 && payload.len() >= 2 && parse(payload).is_some() {
                    let mut inner = vec![];
                    level_mutants(payload, rng, depth - 1, 1, &mut inner, &format!("{path}/{}", f.number));
                    for (name, p) in inner {
                        let mut m = b[..f.start].to_vec();
                        field_bytes(f.number, 2, &p, &mut m);
                        m.extend_from_slice(&b[f.end..]);
                        out.push((name, m));
                    }
                }
            }
            _ => {}
        }
    }
}

/// All mutants of `input` (operator name, bytes). `others` are further valid messages used for splicing.
pub fn mutants(input: &[u8], others: &[Vec<u8>], rng: &mut Rng, depth: u32, cap: usize) -> Vec<(String, Vec<u8>)> {
    let mut out = vec![];
    // truncation: every offset for small inputs, sampled otherwise
    if input.len() <= 2048 {
        for k in 0..input.len() {
            out.push(("truncate".to_string(), input[..k].to_vec()));
        }
    } else {
        for _ in 0..96 {
            out.push(("truncate".to_string(), input[..rng.below(input.len())].to_vec()));
        }
    }
    for _ in 0..48 {
        if input.is_empty() {
            break;
        }
        let mut m = input.to_vec();
        let k = rng.below(m.len());
        m[k] ^= 1 << rng.below(8);
        out.push(("flip_bit".to_string(), m));
    }
    for o in others.iter().take(4) {
        if input.is_empty() || o.is_empty() {
            continue;
        }
        let a = rng.below(input.len());
        let b = rng.below(o.len());
        let mut m = input[..a].to_vec();
        m.extend_from_slice(&o[b..]);
        out.push(("splice".to_string(), m));
    }
    for _ in 0..8 {
        let n = rng.below(64);
        out.push(("random_bytes".to_string(), (0..n).map(|_| rng.next() as u8).collect()));
    }
    level_mutants(input, rng, depth, 3, &mut out, "");
    if out.len() > cap {
        // keep a deterministic sample that preserves every operator family
        let step = out.len() as f64 / cap as f64;
        let mut kept = vec![];
        let mut x = 0.0f64;
        while (x as usize) < out.len() && kept.len() < cap {
            kept.push(out[x as usize].clone());
            x += step;
        }
        return kept;
    }
    out
}

/// Operator family of a mutant name (for coverage accounting).
pub fn family(name: &str) -> &str {
    name.split('/').next().unwrap_or(name)
}
