//! Shared by all in-crate harnesses (pulled in with `#[path]`): append-only JSON-lines event log, parameters from
//! the environment, panic monitor. The harness records; the Python checkers in /verif/lib/checkers judge.
#![allow(dead_code)]

use std::{
    io::Write as _,
    panic::{
        catch_unwind,
        AssertUnwindSafe,
    },
    sync::{
        atomic::{
            AtomicU64,
            Ordering,
        },
        Mutex,
    },
};

pub(crate) struct VLog {
    out: Mutex<std::io::BufWriter<std::fs::File>>,
    seq: AtomicU64,
}

impl VLog {
    /// Opens `$VERIF_OUT/events-<name>[-<shard>].jsonl` (VERIF_OUT defaults to /verif/work/adhoc).
    pub(crate) fn open(name: &str) -> Self {
        let dir = std::env::var("VERIF_OUT").unwrap_or_else(|_| "/verif/work/adhoc".to_string());
        std::fs::create_dir_all(&dir).expect("create VERIF_OUT");
        let shard = env_u64("VERIF_SHARD", 0);
        let path = format!("{dir}/events-{name}-{shard:03}.jsonl");
        let file = std::fs::File::create(&path).expect("create event log");
        let log = Self {
            out: Mutex::new(std::io::BufWriter::new(file)),
            seq: AtomicU64::new(0),
        };
        log.ev(serde_json::json!({"kind": "start", "harness": name, "seed": seed(), "tier": tier(),
            "shard": shard, "shards": env_u64("VERIF_SHARDS", 1)}));
        log
    }

    pub(crate) fn ev(&self, mut v: serde_json::Value) {
        let seq = self.seq.fetch_add(1, Ordering::SeqCst);
        if let Some(o) = v.as_object_mut() {
            o.insert("seq".to_string(), seq.into());
        }
        let mut out = self.out.lock().unwrap_or_else(std::sync::PoisonError::into_inner);
        serde_json::to_writer(&mut *out, &v).expect("write event");
        out.write_all(b"\n").expect("write event");
    }

    pub(crate) fn end(&self) {
        self.ev(serde_json::json!({"kind": "end"}));
        self.out.lock().unwrap_or_else(std::sync::PoisonError::into_inner).flush().expect("flush");
    }

    pub(crate) fn flush(&self) {
        self.out.lock().unwrap_or_else(std::sync::PoisonError::into_inner).flush().expect("flush");
    }
}

pub(crate) fn env_u64(name: &str, default: u64) -> u64 {
    std::env::var(name).ok().and_then(|v| v.parse().ok()).unwrap_or(default)
}

pub(crate) fn seed() -> u64 {
    env_u64("VERIF_SEED", 1)
}

pub(crate) fn tier() -> String {
    std::env::var("VERIF_TIER").unwrap_or_else(|_| "quick".to_string())
}

pub(crate) fn thorough() -> bool {
    tier() == "thorough"
}

pub(crate) fn shard() -> (u64, u64) {
    (env_u64("VERIF_SHARD", 0), env_u64("VERIF_SHARDS", 1).max(1))
}

thread_local! { static LAST_PANIC: std::cell::RefCell<Option<String>> = const { std::cell::RefCell::new(None) }; }

/// Installs a panic hook that remembers location+message of the last panic on this thread (and stays quiet).
pub(crate) fn install_panic_hook() {
    static ONCE: std::sync::Once = std::sync::Once::new();
    ONCE.call_once(|| {
        let prev = std::panic::take_hook();
        std::panic::set_hook(Box::new(move |info| {
            let loc = info.location().map(|l| format!("{}:{}", l.file(), l.line())).unwrap_or_default();
            let msg = info
                .payload()
                .downcast_ref::<&str>()
                .map(|s| (*s).to_string())
                .or_else(|| info.payload().downcast_ref::<String>().cloned())
                .unwrap_or_default();
            let quiet = GUARD_DEPTH.with(|d| d.get() > 0);
            LAST_PANIC.with(|p| *p.borrow_mut() = Some(format!("{loc} {msg}")));
            if !quiet {
                prev(info);
            }
        }));
    });
}

thread_local! { static GUARD_DEPTH: std::cell::Cell<u32> = const { std::cell::Cell::new(0) }; }

/// Runs `f`, turning a panic of the code under test into `Err("<file>:<line> <message>")`.
pub(crate) fn guarded<T>(f: impl FnOnce() -> T) -> Result<T, String> {
    install_panic_hook();
    GUARD_DEPTH.with(|d| d.set(d.get() + 1));
    let r = catch_unwind(AssertUnwindSafe(f));
    GUARD_DEPTH.with(|d| d.set(d.get() - 1));
    match r {
        Ok(v) => Ok(v),
        Err(_) => Err(LAST_PANIC.with(|p| p.borrow_mut().take()).unwrap_or_else(|| "?".into())),
    }
}

pub(crate) fn take_last_panic() -> Option<String> {
    LAST_PANIC.with(|p| p.borrow_mut().take())
}

pub(crate) fn hex(b: &[u8]) -> String {
    use std::fmt::Write as _;
    let mut s = String::with_capacity(b.len() * 2);
    for x in b {
        write!(s, "{x:02x}").unwrap();
    }
    s
}
