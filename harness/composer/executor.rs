// harness stub
