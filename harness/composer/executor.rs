//! C16 harness (child module of `astria_composer::executor`, compiled only with `--features verif` in test builds).
//!
//! Drives the real `BundleFactory` with op words over {push(size class), pop finished, peek-and-drop, pop_now} and
//! records, per word, what every call returned and which payload ids came out in which bundle. Exhaustive over all
//! words up to a length for small capacities, random longer words otherwise. /verif/lib/checkers/c16.py judges.
#![allow(clippy::pedantic, clippy::arithmetic_side_effects, dead_code, unused_imports)]

#[path = "/verif/harness/common/vlog.rs"]
mod vlog;

use astria_core::{
    primitive::v1::{
        asset::Denom,
        RollupId,
    },
    protocol::transaction::v1::{
        action::RollupDataSubmission,
        Action,
    },
    Protobuf as _,
};
use prost::Message as _;
use rand::{
    Rng as _,
    SeedableRng as _,
};
use rand::rngs::StdRng as ChaChaRng;
use serde_json::json;
use vlog::VLog;

use super::bundle_factory::{
    BundleFactory,
    BundleFactoryError,
    SizedBundle,
};

fn fee_asset() -> Denom {
    let d: Denom = "nria".parse().unwrap();
    d.to_ibc_prefixed().into()
}

/// An action whose encoded size is exactly `size` bytes (if reachable) and whose payload starts with a unique id.
fn action_of_size(id: u32, size: usize, rollup: u8) -> RollupDataSubmission {
    let mk = |len: usize| {
        let mut data = vec![0xEEu8; len.max(4)];
        data[..4].copy_from_slice(&id.to_le_bytes());
        RollupDataSubmission { rollup_id: RollupId::new([rollup; 32]), data: data.into(), fee_asset: fee_asset() }
    };
    let mut len = size.saturating_sub(120).max(4);
    // encoded length grows by 1 per data byte (plus the occasional extra varint byte): search upwards
    loop {
        let a = mk(len);
        let e = a.to_raw().encoded_len();
        if e >= size || len > size + 8 {
            return a;
        }
        len += size - e;
    }
}

fn ids_of(bundle: &SizedBundle) -> (Vec<u32>, Vec<usize>) {
    if bundle.is_empty() {
        // the executor never builds a transaction from an empty bundle either
        return (vec![], vec![]);
    }
    let body = bundle.to_transaction_body(0, "verif");
    let mut ids = vec![];
    let mut sizes = vec![];
    for a in body.actions() {
        if let Action::RollupDataSubmission(r) = a {
            ids.push(u32::from_le_bytes(r.data[..4].try_into().unwrap()));
            sizes.push(r.to_raw().encoded_len());
        }
    }
    (ids, sizes)
}

const MAX: usize = 400;
/// size classes relative to MAX
const CLASSES: [(&str, usize); 6] = [("tiny", 110), ("third", 134), ("half", 200), ("half_plus_1", 201), ("max", 400), ("max_plus_1", 401)];
const OPS: usize = CLASSES.len() + 3; // + pop_finished, peek_drop, pop_now

fn run_word(log: &VLog, cap: usize, word: &[usize], mode: &str) {
    let mut f = BundleFactory::new(MAX, cap);
    let mut next_id = 1u32;
    let mut trace = vec![];
    for &op in word {
        if op < CLASSES.len() {
            let (cname, size) = CLASSES[op];
            let mut a = action_of_size(next_id, size, (next_id % 3) as u8 + 1);
            let actual = a.to_raw().encoded_len();
            if next_id % 2 == 0 {
                // as the collectors do: the fee asset arrives in its trace-prefixed spelling and is normalised by the factory
                a.fee_asset = "nria".parse().unwrap();
            }
            let full_before = f.is_full();
            let res = vlog::guarded(|| f.try_push(a));
            let r = match res {
                Ok(Ok(())) => "ok".to_string(),
                Ok(Err(BundleFactoryError::SequenceActionTooLarge { .. })) => "too_large".to_string(),
                Ok(Err(BundleFactoryError::FinishedQueueFull(_))) => "queue_full".to_string(),
                Err(p) => format!("panic:{p}"),
            };
            trace.push(json!(["push", cname, next_id, actual, full_before, r]));
            next_id += 1;
        } else if op == CLASSES.len() {
            let r = f.next_finished().map(|h| h.pop());
            match r {
                Some(b) => {
                    let (ids, sizes) = ids_of(&b);
                    trace.push(json!(["pop_finished", ids, sizes, b.get_size()]));
                }
                None => trace.push(json!(["pop_finished", null])),
            }
        } else if op == CLASSES.len() + 1 {
            // take the handle and drop it without popping (async cancellation): must not lose anything
            let had = f.next_finished().is_some();
            trace.push(json!(["peek_drop", had]));
        } else {
            let b = f.pop_now();
            let (ids, sizes) = ids_of(&b);
            trace.push(json!(["pop_now", ids, sizes, b.get_size()]));
        }
    }
    // drain: everything accepted must still come out, in order
    let mut drain = vec![];
    for _ in 0..(word.len() + 2) {
        let b = f.pop_now();
        let (ids, sizes) = ids_of(&b);
        if ids.is_empty() {
            break;
        }
        drain.push(json!([ids, sizes, b.get_size()]));
    }
    log.ev(json!({"kind": "word", "mode": mode, "cap": cap, "max": MAX, "ops": trace, "drain": drain}));
}

#[test]
fn bundle_words() {
    let log = VLog::open("c16-bundles");
    let (shard, shards) = vlog::shard();
    let max_len = vlog::env_u64("VERIF_WORD_LEN", 5) as usize;
    let mut idx = 0u64;
    for cap in 0..=2usize {
        for len in 1..=max_len {
            let total = OPS.pow(len as u32);
            for code in 0..total {
                idx += 1;
                if idx % shards != shard {
                    continue;
                }
                let mut c = code;
                let word: Vec<usize> = (0..len)
                    .map(|_| {
                        let o = c % OPS;
                        c /= OPS;
                        o
                    })
                    .collect();
                run_word(&log, cap, &word, "exhaustive");
            }
        }
    }
    // random longer words, larger capacities
    let mut rng = ChaChaRng::seed_from_u64(vlog::seed() ^ 0xC16 ^ (shard << 20));
    let n = vlog::env_u64("VERIF_RANDOM_WORDS", 2000);
    for _ in 0..n {
        let cap = rng.gen_range(0..=4usize);
        let len = rng.gen_range(max_len + 1..=40);
        let word: Vec<usize> = (0..len).map(|_| if rng.gen_bool(0.7) { rng.gen_range(0..CLASSES.len()) } else { rng.gen_range(CLASSES.len()..OPS) }).collect();
        run_word(&log, cap, &word, "random");
    }
    log.end();
}
