//! C12 harness (child module of `astria_sequencer_relayer::relayer::write`, compiled only with `--features verif`).
//!
//! Streams of sequencer blocks (sizes tuned around the 1 MB payload bound with incompressible payloads, 0..many rollups,
//! rollup filters) are pushed through the real `NextSubmission` exactly as `BlobSubmitter::run` does (try_add, Full
//! push-back into a pending slot, take() when no submission is in flight, take() futures dropped un-polled). Every taken
//! submission is decoded the way conductor does (brotli -> list -> checked types -> proof audit) and recorded.
//! /verif/lib/checkers/c12.py judges.
#![allow(clippy::pedantic, clippy::arithmetic_side_effects, dead_code, unused_imports)]

#[path = "/verif/harness/common/vlog.rs"]
mod vlog;
#[path = "/verif/harness/relayer/crash.rs"]
mod crash;

use astria_core::{
    brotli::decompress_bytes,
    generated::astria::sequencerblock::v1::{
        SubmittedMetadataList,
        SubmittedRollupDataList,
    },
    primitive::v1::RollupId,
    protocol::test_utils::ConfigureSequencerBlock,
    sequencerblock::v1::{
        SequencerBlock,
        SubmittedMetadata,
        SubmittedRollupData,
    },
};
use prost::Message as _;
use rand_chacha::{
    rand_core::{
        RngCore as _,
        SeedableRng as _,
    },
    ChaChaRng,
};
use serde_json::json;
use sha2::Digest as _;
use telemetry::Metrics as _;
use vlog::VLog;

use super::conversion::{
    NextSubmission,
    Submission,
    TryAddError,
};
use crate::{
    IncludeRollup,
    Metrics,
};

fn below(rng: &mut ChaChaRng, n: u64) -> u64 {
    if n == 0 { 0 } else { rng.next_u64() % n }
}

fn rollup(k: u8) -> RollupId {
    RollupId::new([k; 32])
}

/// RFC 6962 Merkle tree hash over byte strings (independent of astria-merkle).
fn rfc6962_root<T: AsRef<[u8]>>(leaves: &[T]) -> [u8; 32] {
    fn mth<T: AsRef<[u8]>>(l: &[T]) -> [u8; 32] {
        match l.len() {
            0 => sha2::Sha256::digest([]).into(),
            1 => {
                let mut h = sha2::Sha256::new();
                h.update([0u8]);
                h.update(l[0].as_ref());
                h.finalize().into()
            }
            n => {
                let mut k = 1;
                while k * 2 < n {
                    k *= 2;
                }
                let mut h = sha2::Sha256::new();
                h.update([1u8]);
                h.update(mth(&l[..k]));
                h.update(mth(&l[k..]));
                h.finalize().into()
            }
        }
    }
    mth(leaves)
}

fn digest(b: &[u8]) -> String {
    vlog::hex(&sha2::Sha256::digest(b)[..8])
}

fn make_block(rng: &mut ChaChaRng, height: u32, class: &str) -> (SequencerBlock, serde_json::Value) {
    let mut sequence_data: Vec<(RollupId, Vec<u8>)> = vec![];
    // (rollup, payload length) list for the class
    let mut plan: Vec<(u8, usize)> = vec![];
    match class {
        "empty" => {}
        "tiny" => plan.push((1 + below(rng, 4) as u8, 10 + below(rng, 100) as usize)),
        "many_rollups" => {
            for r in 1..=6u8 {
                for _ in 0..below(rng, 3) {
                    plan.push((r, below(rng, 3000) as usize));
                }
            }
        }
        "quarter" => plan.push((1 + below(rng, 3) as u8, 240_000 + below(rng, 20_000) as usize)),
        "third" => plan.push((1 + below(rng, 3) as u8, 330_000 + below(rng, 10_000) as usize)),
        "half" => plan.push((1 + below(rng, 3) as u8, 497_000 + below(rng, 6_000) as usize)),
        "almost_full" => plan.push((1, 990_000 + below(rng, 9_000) as usize)),
        "oversized" => plan.push((2, 1_010_000 + below(rng, 50_000) as usize)),
        _ => {
            plan.push((1, below(rng, 200_000) as usize));
            plan.push((3, below(rng, 100_000) as usize));
        }
    }
    for (r, n) in plan {
        let mut d = vec![0u8; n];
        rng.fill_bytes(&mut d); // incompressible
        d.extend_from_slice(&height.to_le_bytes());
        sequence_data.push((rollup(r), d));
    }
    let block = ConfigureSequencerBlock {
        chain_id: Some("sequencer-0".to_string()),
        height,
        // unique per block (the default is all zeroes for every block)
        block_hash: Some(astria_core::sequencerblock::v1::block::Hash::new(sha2::Sha256::digest(rng.next_u64().to_le_bytes()).into())),
        sequence_data,
        ..ConfigureSequencerBlock::default()
    }
    .make();
    let mut per_rollup = serde_json::Map::new();
    for (id, txs) in block.rollup_transactions() {
        per_rollup.insert(id.to_string(), txs.transactions().iter().map(|t| digest(t)).collect());
    }
    let j = json!({"height": height, "class": class, "hash": vlog::hex(block.block_hash().as_bytes()), "rollups": per_rollup});
    (block, j)
}

/// Decodes a submission the way conductor does and describes it.
fn describe(sub: Submission, filter_ids: &[u8]) -> serde_json::Value {
    let meta_json = serde_json::to_value(sub.input_metadata()).unwrap_or(json!(null));
    let greatest = sub.greatest_sequencer_height().value();
    let (num_blocks, num_blobs, compressed, uncompressed) = (sub.num_blocks(), sub.num_blobs(), sub.compressed_size(), sub.uncompressed_size());
    let blobs = sub.into_blobs();
    let seq_ns = astria_core::celestia::namespace_v0_from_sha256_of_bytes(b"sequencer-0");
    let mut metas = vec![];
    let mut rollups = vec![];
    let mut problems: Vec<String> = vec![];
    let mut total_blob_bytes = 0usize;
    let mut checked_metas: Vec<SubmittedMetadata> = vec![];
    for b in &blobs {
        total_blob_bytes += b.data.len();
        let Ok(raw) = decompress_bytes(&b.data) else {
            problems.push("blob does not decompress".into());
            continue;
        };
        if b.namespace == seq_ns {
            match SubmittedMetadataList::decode(&*raw) {
                Ok(list) => {
                    for e in list.entries {
                        match SubmittedMetadata::try_from_raw(e) {
                            Ok(m) => {
                                metas.push(json!({"height": m.height().value(), "hash": vlog::hex(m.block_hash().as_bytes()),
                                    "rollup_ids": m.rollup_ids().map(ToString::to_string).collect::<Vec<_>>()}));
                                checked_metas.push(m);
                            }
                            Err(e) => problems.push(format!("metadata entry rejected: {e}")),
                        }
                    }
                }
                Err(e) => problems.push(format!("metadata list undecodable: {e}")),
            }
        } else {
            match SubmittedRollupDataList::decode(&*raw) {
                Ok(list) => {
                    for e in list.entries {
                        match SubmittedRollupData::try_from_raw(e) {
                            Ok(r) => {
                                let ns_ok = astria_core::celestia::namespace_v0_from_rollup_id(r.rollup_id()) == b.namespace;
                                // conductor's audit of the rollup data against the metadata with the same block hash
                                let proof_ok = checked_metas.iter().chain(std::iter::empty()).find(|m| m.block_hash() == r.sequencer_block_hash()).map(|m| {
                                    r.proof()
                                        .audit()
                                        .with_root(*m.rollup_transactions_root())
                                        .with_leaf_builder()
                                        .write(r.rollup_id().as_bytes())
                                        .write(&rfc6962_root(r.transactions()))
                                        .finish_leaf()
                                        .perform()
                                });
                                rollups.push(json!({"hash": vlog::hex(r.sequencer_block_hash().as_bytes()), "rollup": r.rollup_id().to_string(),
                                    "txs": r.transactions().iter().map(|t| digest(t)).collect::<Vec<_>>(), "namespace_ok": ns_ok, "proof_ok": proof_ok}));
                            }
                            Err(e) => problems.push(format!("rollup entry rejected: {e}")),
                        }
                    }
                }
                Err(e) => problems.push(format!("rollup list undecodable: {e}")),
            }
        }
    }
    let _ = filter_ids;
    json!({"greatest_sequencer_height": greatest, "num_blocks": num_blocks, "num_blobs": num_blobs, "compressed_size": compressed,
        "uncompressed_size": uncompressed, "sum_blob_bytes": total_blob_bytes, "input_meta": meta_json, "metadata": metas, "rollup_data": rollups, "problems": problems})
}

#[tokio::test]
async fn batching() {
    let log = VLog::open("c12-batching");
    let (shard, _) = vlog::shard();
    let metrics: &'static Metrics = Box::leak(Box::new(Metrics::noop_metrics(&()).unwrap()));
    let scenarios = vlog::env_u64("VERIF_SCENARIOS", 6);
    let mut rng = ChaChaRng::seed_from_u64(vlog::seed().wrapping_mul(104_729) ^ 0xC12 ^ (shard << 16));
    for sc in 0..scenarios {
        // rollup filter: all, or a subset of ids 1..=4
        let filter_ids: Vec<u8> = match below(&mut rng, 4) {
            0 => vec![],
            _ => (1..=4u8).filter(|_| below(&mut rng, 2) == 0).collect(),
        };
        use base64::prelude::*;
        let filter_str = filter_ids.iter().map(|k| BASE64_STANDARD.encode([*k; 32])).collect::<Vec<_>>().join(",");
        let filter = IncludeRollup::parse(&filter_str).unwrap();
        let mut next = NextSubmission::new(filter, metrics);
        let profile = ["small", "around_half", "around_full", "mixed"][below(&mut rng, 4) as usize];
        let nblocks = 6 + below(&mut rng, 14) as u32;
        log.ev(json!({"kind": "scenario", "sc": sc, "filter": filter_ids.iter().map(|k| rollup(*k).to_string()).collect::<Vec<_>>(), "profile": profile, "blocks": nblocks}));
        let mut pending: Option<SequencerBlock> = None;
        let mut height = 1 + below(&mut rng, 50) as u32;
        let mut produced = 0;
        let mut steps = 0;
        while (produced < nblocks || pending.is_some()) && steps < 400 {
            steps += 1;
            // the submitter's select loop: either take (no submission in flight) or receive a block (if capacity)
            let do_take = pending.is_some() || below(&mut rng, 100) < 25;
            if do_take {
                if below(&mut rng, 5) == 0 {
                    // the take future is created and dropped without being polled (select! chose another branch)
                    let fut = next.take();
                    drop(fut);
                    log.ev(json!({"kind": "take_dropped", "sc": sc}));
                }
                match next.take().await {
                    Some(sub) => log.ev(json!({"kind": "submission", "sc": sc, "sub": describe(sub, &filter_ids)})),
                    None => log.ev(json!({"kind": "take_none", "sc": sc})),
                }
                if let Some(b) = pending.take() {
                    let h = b.height().value();
                    match next.try_add(b) {
                        Ok(()) => log.ev(json!({"kind": "add", "sc": sc, "height": h, "result": "ok", "from_pending": true})),
                        Err(TryAddError::Full(b)) => {
                            log.ev(json!({"kind": "add", "sc": sc, "height": h, "result": "full", "from_pending": true}));
                            pending = Some(*b);
                        }
                        Err(TryAddError::OversizedBlock { compressed_size, .. }) => {
                            log.ev(json!({"kind": "add", "sc": sc, "height": h, "result": "oversized", "compressed_size": compressed_size, "from_pending": true}));
                        }
                        Err(e) => log.ev(json!({"kind": "add", "sc": sc, "height": h, "result": format!("err:{e}")})),
                    }
                }
                continue;
            }
            if produced >= nblocks {
                continue;
            }
            let class = match profile {
                "small" => ["empty", "tiny", "many_rollups", "tiny"][below(&mut rng, 4) as usize],
                "around_half" => ["half", "half", "third", "quarter", "tiny"][below(&mut rng, 5) as usize],
                "around_full" => ["almost_full", "half", "tiny", "oversized", "third"][below(&mut rng, 5) as usize],
                _ => ["empty", "tiny", "many_rollups", "quarter", "third", "half", "almost_full", "other"][below(&mut rng, 8) as usize],
            };
            let (block, bj) = make_block(&mut rng, height, class);
            log.ev(json!({"kind": "block_in", "sc": sc, "block": bj}));
            produced += 1;
            height += 1;
            let h = block.height().value();
            match vlog::guarded(|| next.try_add(block)) {
                Ok(Ok(())) => log.ev(json!({"kind": "add", "sc": sc, "height": h, "result": "ok"})),
                Ok(Err(TryAddError::Full(b))) => {
                    log.ev(json!({"kind": "add", "sc": sc, "height": h, "result": "full"}));
                    pending = Some(*b);
                }
                Ok(Err(TryAddError::OversizedBlock { compressed_size, .. })) => {
                    // BlobSubmitter::run exits with an error here; the harness records and carries on with the next block
                    log.ev(json!({"kind": "add", "sc": sc, "height": h, "result": "oversized", "compressed_size": compressed_size}));
                }
                Ok(Err(e)) => log.ev(json!({"kind": "add", "sc": sc, "height": h, "result": format!("err:{e}")})),
                Err(p) => log.ev(json!({"kind": "add", "sc": sc, "height": h, "result": format!("panic:{p}")})),
            }
        }
        // final flush
        if let Some(sub) = next.take().await {
            log.ev(json!({"kind": "submission", "sc": sc, "sub": describe(sub, &filter_ids)}));
        }
        log.ev(json!({"kind": "scenario_end", "sc": sc, "pending_left": pending.is_some()}));
        log.flush();
    }
    log.end();
}
