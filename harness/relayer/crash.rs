//! C11 harness: the real `BlobSubmitter` (state file, CelestiaClient, retry loops) against a fake Celestia app, stopped at
//! enumerated instants and restarted from its submission-state file the way `Relayer::run` does it
//! (`SubmissionStateAtStartup::new_from_path`, block feed resumed at `last_completed_sequencer_height() + 1`).
//!
//! One run = one single-threaded tokio runtime with a paused (virtual) clock, so the relayer's seconds-long polling and
//! retry delays cost nothing and the same script replays to the same event sequence. The fake Celestia app is a tonic
//! server on loopback TCP in the same runtime. It keeps a mempool with scripted fates per BroadcastTx (lands fast / lands
//! slowly / evicted / rejected with a code / gRPC error with or without having processed the tx / reply withheld past the
//! client's timeout), enforces account sequence numbers, and records which sequencer heights every landed BlobTx carries
//! (decoded the way conductor does). A "crash" drops the submitter's future: at the arrival or at the reply of the k-th
//! RPC (in flight, processed or not), or after the n-th poll of the future (every suspension point, which includes the
//! gap between the temp-file write and the rename). The harness records; /verif/lib/checkers/c11.py judges.
#![allow(clippy::pedantic, clippy::arithmetic_side_effects, dead_code, unused_imports)]

use std::{
    collections::HashMap,
    future::Future,
    path::{
        Path,
        PathBuf,
    },
    pin::Pin,
    sync::{
        atomic::{
            AtomicU64,
            Ordering,
        },
        Arc,
        Mutex,
    },
    task::{
        Context,
        Poll,
    },
    time::Duration,
};

use astria_core::{
    brotli::decompress_bytes,
    generated::{
        astria::sequencerblock::v1::SubmittedMetadataList,
        celestia::v1::{
            query_server::{
                Query as BlobQueryService,
                QueryServer as BlobQueryServer,
            },
            Params as BlobParams,
            QueryParamsRequest as QueryBlobParamsRequest,
            QueryParamsResponse as QueryBlobParamsResponse,
        },
        cosmos::{
            auth::v1beta1::{
                query_server::{
                    Query as AuthQueryService,
                    QueryServer as AuthQueryServer,
                },
                BaseAccount,
                Params as AuthParams,
                QueryAccountRequest,
                QueryAccountResponse,
                QueryParamsRequest as QueryAuthParamsRequest,
                QueryParamsResponse as QueryAuthParamsResponse,
            },
            base::{
                abci::v1beta1::TxResponse,
                node::v1beta1::{
                    service_server::{
                        Service as MinGasPriceService,
                        ServiceServer as MinGasPriceServer,
                    },
                    ConfigRequest as MinGasPriceRequest,
                    ConfigResponse as MinGasPriceResponse,
                },
                tendermint::v1beta1::{
                    service_server::{
                        Service as NodeInfoService,
                        ServiceServer as NodeInfoServer,
                    },
                    GetNodeInfoRequest,
                    GetNodeInfoResponse,
                },
            },
            tx::v1beta1::{
                service_server::{
                    Service as TxService,
                    ServiceServer as TxServer,
                },
                BroadcastTxRequest,
                BroadcastTxResponse,
                GetTxRequest,
                GetTxResponse,
                Tx,
            },
        },
        tendermint::{
            p2p::DefaultNodeInfo,
            types::BlobTx,
        },
    },
    primitive::v1::RollupId,
    protocol::test_utils::ConfigureSequencerBlock,
    sequencerblock::v1::{
        SequencerBlock,
        SubmittedMetadata,
    },
};
use celestia_types::nmt::Namespace;
use prost::{
    Message as _,
    Name as _,
};
use rand_chacha::{
    rand_core::{
        RngCore as _,
        SeedableRng as _,
    },
    ChaChaRng,
};
use serde_json::json;
use sha2::Digest as _;
use telemetry::Metrics as _;
use tokio::sync::mpsc;
use tokio_util::sync::CancellationToken;
use tonic::{
    transport::Server,
    Request,
    Response,
    Status,
};

use super::vlog::{
    self,
    VLog,
};
use crate::{
    relayer::{
        celestia_client::{
            CelestiaClientBuilder,
            CelestiaKeys,
        },
        submission::SubmissionStateAtStartup,
        write::BlobSubmitter,
        State as RelayerState,
    },
    IncludeRollup,
    Metrics,
};

const SEQ_CHAIN: &str = "sequencer-0";
const CELESTIA_CHAIN: &str = "fake-celestia";
const BASE_SEQUENCE: u64 = 53;

fn below(rng: &mut ChaChaRng, n: u64) -> u64 {
    if n == 0 { 0 } else { rng.next_u64() % n }
}

// ---------------------------------------------------------------- scenario description

#[derive(Clone, Debug)]
enum Fate {
    /// accepted into the mempool; included after `land_ms`
    Accept { land_ms: u64 },
    /// accepted into the mempool; evicted after `evict_ms` without ever being included
    Lost { evict_ms: u64 },
    /// CheckTx rejects it (not in the mempool)
    Code { code: u32, log: &'static str },
    /// the RPC fails with a gRPC status; the node did (`processed`) or did not take the tx
    StatusErr { processed: bool, land_ms: u64 },
    /// the reply is withheld past the client's request timeout; the node did or did not take the tx
    Hang { processed: bool, land_ms: u64 },
}

impl Fate {
    fn name(&self) -> String {
        match self {
            Fate::Accept { land_ms } => if *land_ms >= 10_000 { "accept_slow".into() } else { "accept_fast".into() },
            Fate::Lost { .. } => "lost".into(),
            Fate::Code { code, .. } => format!("code_{code}"),
            Fate::StatusErr { processed, .. } => format!("status_err_processed_{processed}"),
            Fate::Hang { processed, .. } => format!("hang_processed_{processed}"),
        }
    }
}

#[derive(Clone, Copy, Debug, PartialEq)]
enum Crash {
    None,
    /// at the `k`-th RPC event (arrivals and replies alternate) of the session
    Event(u64),
    /// after the `n`-th poll of the submitter future of the session
    Poll(u64),
}

#[derive(Clone, Debug)]
struct Scenario {
    base: u64,
    variant: String,
    h_max: u32,
    /// virtual ms between sequencer blocks becoming available (0: all available at once)
    block_ms: u64,
    big_blocks: bool,
    fates: Vec<Fate>,
    get_tx_err_pct: u64,
    pending_as_height_zero: bool,
    crashes: Vec<Crash>,
    /// seconds the process stays down before each restart (ages the `at` timestamp of a prepared state file)
    downtime_s: Vec<u64>,
    plant_partial_tmp: bool,
    seed: u64,
}

fn gen_scenario(rng: &mut ChaChaRng, base: u64) -> Scenario {
    let nfates = 3 + below(rng, 5) as usize;
    let mut fates = vec![];
    for _ in 0..nfates {
        let f = match below(rng, 16) {
            0..=4 => Fate::Accept { land_ms: 300 + below(rng, 4000) },
            5 | 6 => Fate::Accept { land_ms: 20_000 + below(rng, 100_000) },
            7 | 8 => Fate::Lost { evict_ms: 20_000 + below(rng, 60_000) },
            9 => Fate::Code { code: 13, log: "insufficient fees; got: 1234utia required: 7980utia: insufficient fee" },
            10 => Fate::Code { code: 11, log: "out of gas in location: ReadFlat; gasWanted: 10, gasUsed: 1000: out of gas" },
            11 | 12 => Fate::StatusErr { processed: below(rng, 2) == 0, land_ms: 500 + below(rng, 30_000) },
            _ => Fate::Hang { processed: below(rng, 3) != 0, land_ms: 500 + below(rng, 70_000) },
        };
        fates.push(f);
    }
    Scenario {
        base,
        variant: "baseline".into(),
        h_max: 4 + below(rng, 6) as u32,
        block_ms: [0, 400, 1500, 2500, 6000, 9000][below(rng, 6) as usize],
        big_blocks: below(rng, 6) == 0,
        fates,
        get_tx_err_pct: [0, 0, 10, 35][below(rng, 4) as usize],
        pending_as_height_zero: below(rng, 2) == 0,
        crashes: vec![],
        downtime_s: vec![],
        plant_partial_tmp: false,
        seed: rng.next_u64(),
    }
}

// ---------------------------------------------------------------- fake Celestia app

#[derive(Clone, Debug)]
struct TxRec {
    heights: Vec<u64>,
    sequence: u64,
    accepted_ms: u64,
    land_at_ms: Option<u64>,
    evict_at_ms: Option<u64>,
    status: &'static str, // pending | landed | evicted
    celestia_height: i64,
}

struct NetInner {
    session: u32,
    ev: u64,
    crash_at: Option<u64>,
    calm: bool,
    fates: Vec<Fate>,
    broadcasts: u64,
    get_txs: u64,
    get_tx_err_pct: u64,
    pending_as_height_zero: bool,
    txs: HashMap<String, TxRec>,
    order: Vec<String>,
    landed_count: u64,
    next_celestia_height: i64,
    last_state_raw: Option<String>,
    rng: ChaChaRng,
}

struct Net {
    log: Arc<VLog>,
    scen: u64,
    t0: tokio::time::Instant,
    state_path: PathBuf,
    crash_tx: mpsc::UnboundedSender<String>,
    inner: Mutex<NetInner>,
}

impl Net {
    fn now_ms(&self) -> u64 {
        (tokio::time::Instant::now() - self.t0).as_millis() as u64
    }

    /// Moves mempool entries whose time has come (in time order) and records a change of the state file.
    fn tick(&self, g: &mut NetInner) {
        let now = self.now_ms();
        let mut due: Vec<(u64, bool, String)> = vec![];
        for (h, r) in &g.txs {
            if r.status == "pending" {
                if let Some(t) = r.land_at_ms {
                    if t <= now {
                        due.push((t, true, h.clone()));
                    }
                } else if let Some(t) = r.evict_at_ms {
                    if t <= now {
                        due.push((t, false, h.clone()));
                    }
                }
            }
        }
        due.sort();
        for (t, land, h) in due {
            let ch = g.next_celestia_height;
            let r = g.txs.get_mut(&h).unwrap();
            if land {
                r.status = "landed";
                r.celestia_height = ch;
                let (heights, sequence) = (r.heights.clone(), r.sequence);
                g.next_celestia_height += 2;
                g.landed_count += 1;
                self.log.ev(json!({"kind": "landed", "scen": self.scen, "hash": h, "heights": heights, "celestia_height": ch, "t_ms": t, "sequence": sequence}));
            } else {
                r.status = "evicted";
                self.log.ev(json!({"kind": "evicted", "scen": self.scen, "hash": h, "t_ms": t}));
            }
        }
        self.observe_state(g, "tick");
    }

    fn observe_state(&self, g: &mut NetInner, at: &str) {
        let raw = std::fs::read_to_string(&self.state_path).unwrap_or_else(|e| format!("<unreadable: {e}>"));
        if g.last_state_raw.as_deref() != Some(&raw) {
            self.log.ev(json!({"kind": "state", "scen": self.scen, "session": g.session, "t_ms": self.now_ms(), "raw": raw, "at": at}));
            g.last_state_raw = Some(raw);
        }
    }

    /// Records an RPC event; `true` means the process is to be stopped right here (the handler never replies).
    fn event(&self, name: &str, phase: &str, extra: serde_json::Value) -> bool {
        let mut g = self.inner.lock().unwrap();
        self.tick(&mut g);
        let ev = g.ev;
        g.ev += 1;
        let crash = g.crash_at == Some(ev);
        self.log.ev(json!({"kind": "rpc", "scen": self.scen, "session": g.session, "ev": ev, "name": name, "phase": phase, "t_ms": self.now_ms(), "crash_here": crash, "x": extra}));
        if crash {
            g.crash_at = None;
            let _ = self.crash_tx.send(format!("{name}:{phase}"));
        }
        crash
    }

    fn pending_count(g: &NetInner) -> u64 {
        g.txs.values().filter(|r| r.status == "pending").count() as u64
    }
}

async fn stop_here() {
    std::future::pending::<()>().await;
}

/// The sequencer heights carried by the metadata blob of a BlobTx (decoded the way conductor reads Celestia).
fn heights_of(blob_tx: &BlobTx) -> Result<Vec<u64>, String> {
    let seq_ns = astria_core::celestia::namespace_v0_from_sha256_of_bytes(SEQ_CHAIN.as_bytes());
    let mut heights = vec![];
    for b in &blob_tx.blobs {
        let ns = Namespace::new_v0(b.namespace_id.as_ref()).map_err(|e| format!("bad namespace: {e}"))?;
        if ns != seq_ns {
            continue;
        }
        let raw = decompress_bytes(&b.data).map_err(|e| format!("metadata blob does not decompress: {e}"))?;
        let list = SubmittedMetadataList::decode(&*raw).map_err(|e| format!("metadata list undecodable: {e}"))?;
        for e in list.entries {
            let m = SubmittedMetadata::try_from_raw(e).map_err(|e| format!("metadata entry rejected: {e}"))?;
            heights.push(m.height().value());
        }
    }
    Ok(heights)
}

#[derive(Clone)]
struct Svc(Arc<Net>);

#[async_trait::async_trait]
impl NodeInfoService for Svc {
    async fn get_node_info(self: Arc<Self>, _request: Request<GetNodeInfoRequest>) -> Result<Response<GetNodeInfoResponse>, Status> {
        if self.0.event("get_node_info", "arrive", json!(null)) {
            stop_here().await;
        }
        let response = GetNodeInfoResponse {
            default_node_info: Some(DefaultNodeInfo { network: CELESTIA_CHAIN.to_string(), ..Default::default() }),
            ..Default::default()
        };
        if self.0.event("get_node_info", "reply", json!(null)) {
            stop_here().await;
        }
        Ok(Response::new(response))
    }
}

#[async_trait::async_trait]
impl AuthQueryService for Svc {
    async fn account(self: Arc<Self>, request: Request<QueryAccountRequest>) -> Result<Response<QueryAccountResponse>, Status> {
        if self.0.event("query_account", "arrive", json!(null)) {
            stop_here().await;
        }
        let sequence = {
            let mut g = self.0.inner.lock().unwrap();
            self.0.tick(&mut g);
            BASE_SEQUENCE + g.landed_count
        };
        let account = BaseAccount { address: request.into_inner().address, pub_key: None, account_number: 10, sequence };
        let any = pbjson_types::Any { type_url: BaseAccount::type_url(), value: account.encode_to_vec().into() };
        if self.0.event("query_account", "reply", json!({"sequence": sequence})) {
            stop_here().await;
        }
        Ok(Response::new(QueryAccountResponse { account: Some(any) }))
    }

    async fn params(self: Arc<Self>, _request: Request<QueryAuthParamsRequest>) -> Result<Response<QueryAuthParamsResponse>, Status> {
        if self.0.event("query_auth_params", "arrive", json!(null)) {
            stop_here().await;
        }
        let params = AuthParams { max_memo_characters: 256, tx_sig_limit: 7, tx_size_cost_per_byte: 10, sig_verify_cost_ed25519: 590, sig_verify_cost_secp256k1: 1000 };
        if self.0.event("query_auth_params", "reply", json!(null)) {
            stop_here().await;
        }
        Ok(Response::new(QueryAuthParamsResponse { params: Some(params) }))
    }
}

#[async_trait::async_trait]
impl BlobQueryService for Svc {
    async fn params(self: Arc<Self>, _request: Request<QueryBlobParamsRequest>) -> Result<Response<QueryBlobParamsResponse>, Status> {
        if self.0.event("query_blob_params", "arrive", json!(null)) {
            stop_here().await;
        }
        if self.0.event("query_blob_params", "reply", json!(null)) {
            stop_here().await;
        }
        Ok(Response::new(QueryBlobParamsResponse { params: Some(BlobParams { gas_per_blob_byte: 8, gov_max_square_size: 64 }) }))
    }
}

#[async_trait::async_trait]
impl MinGasPriceService for Svc {
    async fn config(self: Arc<Self>, _request: Request<MinGasPriceRequest>) -> Result<Response<MinGasPriceResponse>, Status> {
        if self.0.event("min_gas_price", "arrive", json!(null)) {
            stop_here().await;
        }
        if self.0.event("min_gas_price", "reply", json!(null)) {
            stop_here().await;
        }
        Ok(Response::new(MinGasPriceResponse { minimum_gas_price: "0.002000000000000000utia".to_string() }))
    }
}

#[async_trait::async_trait]
impl TxService for Svc {
    async fn get_tx(self: Arc<Self>, request: Request<GetTxRequest>) -> Result<Response<GetTxResponse>, Status> {
        let hash = request.into_inner().hash;
        if self.0.event("get_tx", "arrive", json!({"hash": hash})) {
            stop_here().await;
        }
        let (result, what): (Result<GetTxResponse, Status>, String) = {
            let mut g = self.0.inner.lock().unwrap();
            self.0.tick(&mut g);
            g.get_txs += 1;
            let fail = !g.calm && below(&mut g.rng, 100) < g.get_tx_err_pct;
            let zero = g.pending_as_height_zero;
            match g.txs.get(&hash.to_lowercase()) {
                _ if fail => (Err(Status::internal("injected GetTx failure")), "error".into()),
                Some(r) if r.status == "landed" => (
                    Ok(GetTxResponse { tx: None, tx_response: Some(TxResponse { height: r.celestia_height, txhash: hash.to_uppercase(), code: 0, ..TxResponse::default() }) }),
                    format!("landed@{}", r.celestia_height),
                ),
                Some(r) if r.status == "pending" && zero => (
                    Ok(GetTxResponse { tx: None, tx_response: Some(TxResponse { height: 0, txhash: hash.to_uppercase(), code: 0, ..TxResponse::default() }) }),
                    "pending(height 0)".into(),
                ),
                Some(r) => (Err(Status::not_found(format!("tx not found: {hash}"))), format!("not_found({})", r.status)),
                None => (Err(Status::not_found(format!("tx not found: {hash}"))), "not_found(unknown)".into()),
            }
        };
        if self.0.event("get_tx", "reply", json!({"hash": hash, "result": what})) {
            stop_here().await;
        }
        result.map(Response::new)
    }

    async fn broadcast_tx(self: Arc<Self>, request: Request<BroadcastTxRequest>) -> Result<Response<BroadcastTxResponse>, Status> {
        let bytes = request.into_inner().tx_bytes;
        if self.0.event("broadcast_tx", "arrive", json!(null)) {
            stop_here().await;
        }
        let net = &self.0;
        let blob_tx = BlobTx::decode(bytes.as_ref()).map_err(|e| Status::invalid_argument(format!("not a BlobTx: {e}")))?;
        let hash = vlog::hex(&sha2::Sha256::digest(&blob_tx.tx));
        let heights = heights_of(&blob_tx);
        let sequence = Tx::decode(blob_tx.tx.as_ref()).ok().and_then(|t| t.auth_info).and_then(|a| a.signer_infos.first().map(|s| s.sequence));
        // decide
        let (reply, hang, outcome): (Result<BroadcastTxResponse, Status>, bool, String) = {
            let mut g = net.inner.lock().unwrap();
            net.tick(&mut g);
            let idx = g.broadcasts;
            g.broadcasts += 1;
            let fate = if g.calm { Fate::Accept { land_ms: 1500 } } else { g.fates.get(idx as usize).cloned().unwrap_or(Fate::Accept { land_ms: 1200 }) };
            let now = net.now_ms();
            let ok = |hash: &str| BroadcastTxResponse { tx_response: Some(TxResponse { txhash: hash.to_uppercase(), code: 0, ..TxResponse::default() }) };
            let code = |hash: &str, code: u32, log: String| BroadcastTxResponse {
                tx_response: Some(TxResponse { txhash: hash.to_uppercase(), code, codespace: "sdk".into(), raw_log: log, ..TxResponse::default() }),
            };
            // what CheckTx of the node does with the tx when it processes it
            let mut process = |g: &mut NetInner, land_ms: Option<u64>, evict_ms: Option<u64>| -> Result<(), (u32, String)> {
                let heights = match &heights {
                    Ok(h) if !h.is_empty() => h.clone(),
                    Ok(_) => return Err((2, "no sequencer metadata blob".into())),
                    Err(e) => return Err((2, e.clone())),
                };
                if let Some(r) = g.txs.get(&hash) {
                    if r.status != "evicted" {
                        return Err((19, "tx already exists in cache".into()));
                    }
                }
                let expected = BASE_SEQUENCE + g.landed_count + Net::pending_count(g);
                let seq = sequence.unwrap_or(u64::MAX);
                if seq != expected {
                    return Err((32, format!("account sequence mismatch, expected {expected}, got {seq}: incorrect account sequence")));
                }
                g.txs.insert(hash.clone(), TxRec {
                    heights,
                    sequence: seq,
                    accepted_ms: now,
                    land_at_ms: land_ms.map(|d| now + d),
                    evict_at_ms: evict_ms.map(|d| now + d),
                    status: "pending",
                    celestia_height: 0,
                });
                g.order.push(hash.clone());
                Ok(())
            };
            let (reply, hang, outcome) = match &fate {
                Fate::Accept { land_ms } => match process(&mut g, Some(*land_ms), None) {
                    Ok(()) => (Ok(ok(&hash)), false, "accepted".to_string()),
                    Err((c, l)) => (Ok(code(&hash, c, l)), false, format!("code_{c}")),
                },
                Fate::Lost { evict_ms } => match process(&mut g, None, Some(*evict_ms)) {
                    Ok(()) => (Ok(ok(&hash)), false, "accepted_will_be_evicted".to_string()),
                    Err((c, l)) => (Ok(code(&hash, c, l)), false, format!("code_{c}")),
                },
                Fate::Code { code: c, log } => (Ok(code(&hash, *c, (*log).to_string())), false, format!("code_{c}")),
                Fate::StatusErr { processed, land_ms } => {
                    let p = if *processed { process(&mut g, Some(*land_ms), None).is_ok() } else { false };
                    (Err(Status::unavailable("injected broadcast failure")), false, format!("status_err(processed={p})"))
                }
                Fate::Hang { processed, land_ms } => {
                    let p = if *processed { process(&mut g, Some(*land_ms), None).is_ok() } else { false };
                    (Ok(ok(&hash)), true, format!("hang(processed={p})"))
                }
            };
            net.log.ev(json!({"kind": "broadcast", "scen": net.scen, "session": g.session, "idx": idx, "hash": hash, "sequence": sequence,
                "heights": heights.clone().unwrap_or_default(), "decode_error": heights.clone().err(), "fate": fate.name(), "outcome": outcome, "t_ms": now}));
            (reply, hang, outcome)
        };
        if hang {
            tokio::time::sleep(Duration::from_secs(8)).await;
        }
        if self.0.event("broadcast_tx", "reply", json!({"outcome": outcome})) {
            stop_here().await;
        }
        reply.map(Response::new)
    }
}

// ---------------------------------------------------------------- the process under test

/// Polls the inner future at most `limit` times; reports `None` ("process stopped") instead of the next poll.
struct PollLimited<F> {
    inner: Pin<Box<F>>,
    polls: Arc<AtomicU64>,
    limit: Option<u64>,
}

impl<F: Future> Future for PollLimited<F> {
    type Output = Option<F::Output>;

    fn poll(mut self: Pin<&mut Self>, cx: &mut Context<'_>) -> Poll<Self::Output> {
        let n = self.polls.load(Ordering::SeqCst);
        if self.limit == Some(n) {
            return Poll::Ready(None);
        }
        self.polls.store(n + 1, Ordering::SeqCst);
        match self.inner.as_mut().poll(cx) {
            Poll::Ready(v) => Poll::Ready(Some(v)),
            Poll::Pending => Poll::Pending,
        }
    }
}

/// Waits (in real time) until no blocking file operation of a stopped session is still running in the background.
fn quiesce_blocking_pool() {
    let m = tokio::runtime::Handle::current().metrics();
    for _ in 0..20_000 {
        if m.blocking_queue_depth() == 0 && m.num_blocking_threads() == m.num_idle_blocking_threads() {
            return;
        }
        std::thread::sleep(Duration::from_micros(100));
    }
}

fn make_blocks(rng: &mut ChaChaRng, sc: &Scenario) -> Vec<SequencerBlock> {
    (1..=sc.h_max)
        .map(|height| {
            let mut sequence_data = vec![];
            let big = sc.big_blocks && height % 2 == 0;
            let n = if big { 520_000 } else { 20 + below(rng, 300) as usize };
            for r in 1..=(if big { 1 } else { 1 + below(rng, 2) as u8 }) {
                let mut d = vec![0u8; n];
                rng.fill_bytes(&mut d);
                sequence_data.push((RollupId::new([r; 32]), d));
            }
            ConfigureSequencerBlock {
                chain_id: Some(SEQ_CHAIN.to_string()),
                height,
                block_hash: Some(astria_core::sequencerblock::v1::block::Hash::new(sha2::Sha256::digest(rng.next_u64().to_le_bytes()).into())),
                sequence_data,
                ..ConfigureSequencerBlock::default()
            }
            .make()
        })
        .collect()
}

struct Outcome {
    events: Vec<u64>, // RPC events seen in each session
    polls: Vec<u64>,  // polls of the submitter future in each session
    completed: bool,
}

async fn run_scenario_async(log: Arc<VLog>, sc: Scenario, scen: u64, metrics: &'static Metrics) -> Outcome {
    let dir = tempfile::tempdir().expect("tempdir");
    let state_path = dir.path().join("submission_state.json");
    std::fs::write(&state_path, "{\"state\": \"fresh\"}").unwrap();
    let tmp_path = dir.path().join("submission_state.json.tmp");
    let (crash_tx, mut crash_rx) = mpsc::unbounded_channel::<String>();
    let mut rng = ChaChaRng::seed_from_u64(sc.seed);
    let blocks = make_blocks(&mut rng, &sc);
    let net = Arc::new(Net {
        log: log.clone(),
        scen,
        t0: tokio::time::Instant::now(),
        state_path: state_path.clone(),
        crash_tx,
        inner: Mutex::new(NetInner {
            session: 0,
            ev: 0,
            crash_at: None,
            calm: false,
            fates: sc.fates.clone(),
            broadcasts: 0,
            get_txs: 0,
            get_tx_err_pct: sc.get_tx_err_pct,
            pending_as_height_zero: sc.pending_as_height_zero,
            txs: HashMap::new(),
            order: vec![],
            landed_count: 0,
            next_celestia_height: 100,
            last_state_raw: None,
            rng: ChaChaRng::seed_from_u64(sc.seed ^ 0x6e74),
        }),
    });
    log.ev(json!({"kind": "scenario", "scen": scen, "base": sc.base, "variant": sc.variant, "h_max": sc.h_max, "block_ms": sc.block_ms, "big_blocks": sc.big_blocks,
        "fates": sc.fates.iter().map(Fate::name).collect::<Vec<_>>(), "get_tx_err_pct": sc.get_tx_err_pct, "crashes": sc.crashes.iter().map(|c| format!("{c:?}")).collect::<Vec<_>>(),
        "downtime_s": sc.downtime_s, "plant_partial_tmp": sc.plant_partial_tmp, "first_height": 1}));

    // the fake Celestia app
    let listener = tokio::net::TcpListener::bind("127.0.0.1:0").await.unwrap();
    let addr = listener.local_addr().unwrap();
    let svc = Svc(net.clone());
    let server = tokio::spawn(async move {
        let _ = Server::builder()
            .add_service(NodeInfoServer::new(svc.clone()))
            .add_service(AuthQueryServer::new(svc.clone()))
            .add_service(BlobQueryServer::new(svc.clone()))
            .add_service(MinGasPriceServer::new(svc.clone()))
            .add_service(TxServer::new(svc))
            .serve_with_incoming(tokio_stream::wrappers::TcpListenerStream::new(listener))
            .await;
    });
    let signing_key = {
        let bytes = hex::decode("c8076374e2a4a58db1c924e3dafc055e9685481054fe99e58ed67f5c6ed80e62").unwrap();
        k256::ecdsa::SigningKey::from_slice(&bytes).unwrap()
    };

    let mut out = Outcome { events: vec![], polls: vec![], completed: false };
    let n_sessions = sc.crashes.len() + 2;
    for session in 0..n_sessions {
        let crash = sc.crashes.get(session).copied().unwrap_or(Crash::None);
        let calm = session >= sc.crashes.len();
        // ---- (re)start: what is on disk
        quiesce_blocking_pool();
        if session > 0 {
            if let Some(secs) = sc.downtime_s.get(session - 1).copied().filter(|s| *s > 0) {
                age_prepared_timestamp(&state_path, secs);
            }
            if sc.plant_partial_tmp && session == 1 {
                // a crash in the middle of the temp-file write leaves a truncated temp file behind
                let raw = std::fs::read_to_string(&state_path).unwrap_or_default();
                std::fs::write(&tmp_path, &raw.as_bytes()[..raw.len() / 2]).unwrap();
            }
        }
        let state_raw = std::fs::read_to_string(&state_path).unwrap_or_else(|e| format!("<unreadable: {e}>"));
        let tmp_raw = std::fs::read_to_string(&tmp_path).ok();
        {
            let mut g = net.inner.lock().unwrap();
            g.session = session as u32;
            g.ev = 0;
            g.calm = calm;
            g.crash_at = if let Crash::Event(k) = crash { Some(k) } else { None };
            net.tick(&mut g);
        }
        while crash_rx.try_recv().is_ok() {}
        let startup = SubmissionStateAtStartup::new_from_path(&state_path).await;
        let (startup_kind, last_completed) = match &startup {
            Ok(s) => (
                match s {
                    SubmissionStateAtStartup::Fresh(_) => "fresh".to_string(),
                    SubmissionStateAtStartup::Started(_) => "started".to_string(),
                    SubmissionStateAtStartup::Prepared(_) => "prepared".to_string(),
                },
                s.last_completed_sequencer_height().map(|h| h.value()),
            ),
            Err(e) => (format!("error:{e:#}"), None),
        };
        // `Relayer::run`: the block stream resumes after the last completed height (from the first height when fresh)
        let feed_from = last_completed.map_or(1, |h| h + 1);
        log.ev(json!({"kind": "session_start", "scen": scen, "session": session, "t_ms": net.now_ms(), "state_raw": state_raw, "tmp_raw": tmp_raw,
            "startup": startup_kind, "last_completed": last_completed, "feed_from": feed_from, "crash": format!("{crash:?}"), "calm": calm}));
        let Ok(startup) = startup else {
            out.events.push(0);
            out.polls.push(0);
            continue;
        };
        let relayer_state = Arc::new(RelayerState::new());
        let builder = CelestiaClientBuilder::new(
            CELESTIA_CHAIN.to_string(),
            0.002,
            format!("http://{addr}").parse().unwrap(),
            CelestiaKeys::from(signing_key.clone()),
            relayer_state.clone(),
        )
        .expect("celestia client builder");
        let shutdown = CancellationToken::new();
        let (submitter, handle) = BlobSubmitter::new(builder, IncludeRollup::parse("").unwrap(), relayer_state, startup, shutdown.clone(), metrics);
        let polls = Arc::new(AtomicU64::new(0));
        let limit = if let Crash::Poll(n) = crash { Some(n) } else { None };
        let mut task = tokio::spawn(PollLimited { inner: Box::pin(submitter.run()), polls: polls.clone(), limit });
        // ---- drive: feed blocks as they become available, until stopped / finished / out of (virtual) time
        let started = tokio::time::Instant::now();
        let budget = tokio::time::sleep(Duration::from_secs(if calm { 900 } else { 240 }));
        tokio::pin!(budget);
        let mut ticker = tokio::time::interval(Duration::from_millis(200));
        let mut next = feed_from;
        let mut cancelling = false;
        let reason: String = loop {
            tokio::select! {
                biased;
                Some(at) = crash_rx.recv() => {
                    task.abort();
                    let _ = (&mut task).await;
                    break format!("stopped_at_rpc:{at}");
                }
                r = &mut task => {
                    break match r {
                        Ok(None) => "stopped_at_poll".to_string(),
                        Ok(Some(Ok(()))) => if cancelling { "completed".to_string() } else { "returned_ok".to_string() },
                        Ok(Some(Err(e))) => format!("returned_err:{e:#}"),
                        Err(e) if e.is_panic() => format!("panicked:{}", vlog::take_last_panic().unwrap_or_default()),
                        Err(_) => "aborted".to_string(),
                    };
                }
                () = &mut budget => {
                    task.abort();
                    let _ = (&mut task).await;
                    break "stopped_at_deadline".to_string();
                }
                _ = ticker.tick() => {
                    let tip = if sc.block_ms == 0 { u64::from(sc.h_max) } else {
                        (1 + net.now_ms() / sc.block_ms).min(u64::from(sc.h_max))
                    };
                    while next <= tip {
                        match handle.try_send(Box::new(blocks[(next - 1) as usize].clone())) {
                            Ok(()) => {
                                log.ev(json!({"kind": "feed", "scen": scen, "session": session, "height": next, "t_ms": net.now_ms()}));
                                next += 1;
                            }
                            Err(_) => break,
                        }
                    }
                    let done = {
                        let mut g = net.inner.lock().unwrap();
                        net.tick(&mut g);
                        let all: std::collections::HashSet<u64> = g.txs.values().filter(|r| r.status == "landed").flat_map(|r| r.heights.iter().copied()).collect();
                        (1..=u64::from(sc.h_max)).all(|h| all.contains(&h)) && g.last_state_raw.as_deref().is_some_and(|raw| raw.contains("\"started\"") && !raw.contains("\"prepared\""))
                    };
                    if calm && done && !cancelling && started.elapsed() > Duration::from_secs(2) {
                        cancelling = true;
                        shutdown.cancel();
                    }
                }
            }
        };
        quiesce_blocking_pool();
        let (events, end_raw) = {
            let mut g = net.inner.lock().unwrap();
            net.tick(&mut g);
            net.observe_state(&mut g, "session_end");
            (g.ev, g.last_state_raw.clone())
        };
        log.ev(json!({"kind": "session_end", "scen": scen, "session": session, "reason": reason, "events": events, "polls": polls.load(Ordering::SeqCst),
            "t_ms": net.now_ms(), "state_raw": end_raw, "fed_up_to": next - 1}));
        out.events.push(events);
        out.polls.push(polls.load(Ordering::SeqCst));
        if reason == "completed" {
            out.completed = true;
            break;
        }
    }
    // let everything still in the mempool resolve, then close
    tokio::time::sleep(Duration::from_secs(200)).await;
    {
        let mut g = net.inner.lock().unwrap();
        net.tick(&mut g);
        let landed: Vec<serde_json::Value> = g.order.iter().filter_map(|h| g.txs.get(h).map(|r| json!({"hash": h, "status": r.status, "heights": r.heights}))).collect();
        log.ev(json!({"kind": "scenario_end", "scen": scen, "completed": out.completed, "txs": landed, "events": out.events, "polls": out.polls}));
    }
    server.abort();
    out
}

/// The process was down for `secs`: a prepared state's `at` is that much older when the relayer comes back.
fn age_prepared_timestamp(path: &Path, secs: u64) {
    let Ok(raw) = std::fs::read_to_string(path) else { return };
    let Ok(mut v) = serde_json::from_str::<serde_json::Value>(&raw) else { return };
    let Some(at) = v.get("at").and_then(|a| a.as_str()).map(str::to_string) else { return };
    let Ok(ts) = at.parse::<jiff::Timestamp>() else { return };
    let Ok(older) = ts.checked_sub(jiff::SignedDuration::from_secs(secs as i64)) else { return };
    v["at"] = json!(older.to_string());
    let tmp = path.with_extension("json.aged");
    std::fs::write(&tmp, serde_json::to_string_pretty(&v).unwrap()).unwrap();
    std::fs::rename(&tmp, path).unwrap();
}

fn run_scenario(log: &Arc<VLog>, sc: Scenario, scen: u64, metrics: &'static Metrics) -> Outcome {
    let rt = tokio::runtime::Builder::new_current_thread().enable_all().start_paused(true).build().unwrap();
    let out = rt.block_on(run_scenario_async(log.clone(), sc, scen, metrics));
    rt.shutdown_background();
    out
}

/// Entry: per base scenario a baseline run (no stop) sizes the crash space; then one run per enumerated stop point,
/// plus runs with a second stop, long downtimes and a truncated temp file.
#[test]
fn crash_restart() {
    vlog::install_panic_hook();
    let log = Arc::new(VLog::open("c11-crash"));
    let (shard, _) = vlog::shard();
    let metrics: &'static Metrics = Box::leak(Box::new(Metrics::noop_metrics(&()).unwrap()));
    let bases = vlog::env_u64("VERIF_BASES", 2);
    let max_event_points = vlog::env_u64("VERIF_EVENT_POINTS", 40);
    let poll_points = vlog::env_u64("VERIF_POLL_POINTS", 30);
    let second_points = vlog::env_u64("VERIF_SECOND_POINTS", 12);
    let mut rng = ChaChaRng::seed_from_u64(vlog::seed().wrapping_mul(7_368_787) ^ 0xC11 ^ (shard << 20));
    let mut scen = 0u64;
    for b in 0..bases {
        let base = gen_scenario(&mut rng, b);
        // baseline with one never-firing stop so that the first session is a "faulty network" session of full length
        let mut probe = base.clone();
        probe.crashes = vec![Crash::Event(u64::MAX)];
        probe.variant = "baseline".into();
        let o = run_scenario(&log, probe, scen, metrics);
        scen += 1;
        let (e0, p0) = (o.events[0], o.polls[0]);
        // every RPC event of the first session if affordable, else an even sample
        let step = (e0 / max_event_points.max(1)).max(1);
        let mut points: Vec<Crash> = (0..e0).step_by(step as usize).map(Crash::Event).collect();
        for _ in 0..poll_points {
            points.push(Crash::Poll(below(&mut rng, p0.max(1))));
        }
        for c in points {
            let mut v = base.clone();
            v.crashes = vec![c];
            v.variant = format!("{c:?}");
            v.downtime_s = vec![[0, 0, 50, 4000][below(&mut rng, 4) as usize]];
            v.plant_partial_tmp = below(&mut rng, 4) == 0;
            let o = run_scenario(&log, v.clone(), scen, metrics);
            scen += 1;
            // a second stop inside the recovery session
            if second_points > 0 && below(&mut rng, (max_event_points + poll_points) / second_points.max(1)) == 0 && o.events.len() > 1 {
                let (e1, p1) = (o.events[1], o.polls[1]);
                let c2 = if below(&mut rng, 2) == 0 { Crash::Event(below(&mut rng, e1.max(1))) } else { Crash::Poll(below(&mut rng, p1.max(1))) };
                let mut w = v.clone();
                w.crashes = vec![c, c2];
                w.downtime_s = vec![v.downtime_s[0], [0, 50, 4000][below(&mut rng, 3) as usize]];
                w.variant = format!("{c:?}+{c2:?}");
                run_scenario(&log, w, scen, metrics);
                scen += 1;
            }
        }
        log.flush();
    }
    log.end();
}
