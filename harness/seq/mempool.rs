//! C13 harness (child module of `astria_sequencer::mempool`, compiled only with `--features verif` in test builds).
//!
//! Model-based walk over the real `Mempool`: random operations (insert with the chain state shown, invalid-removal, block
//! inclusion, balance / nonce moves, fee re-costing, expiry, maintenance) against a scripted chain state, with a
//! structure walker that reads the private pending / parked maps under the mempool's own lock after every operation
//! and a status sweep over every accepted transaction id. Everything is recorded; /verif/lib/checkers/c13.py judges.
#![allow(clippy::pedantic, clippy::arithmetic_side_effects, dead_code, unused_imports)]

#[path = "/verif/harness/common/vlog.rs"]
mod vlog;

use std::{
    collections::{
        BTreeMap,
        HashMap,
        HashSet,
    },
    sync::Arc,
    time::Duration,
};

use astria_core::{
    crypto::SigningKey,
    primitive::v1::{
        asset::{
            Denom,
            IbcPrefixed,
        },
        RollupId,
        TransactionId,
    },
    protocol::{
        fees::v1::FeeComponents,
        transaction::v1::action::{
            FeeChange,
            RollupDataSubmission,
            Transfer,
        },
    },
};
use rand::{
    Rng as _,
    RngCore as _,
    SeedableRng as _,
};
use rand_chacha::ChaChaRng;
use serde_json::json;
use tendermint::abci::types::ExecTxResult;
use vlog::VLog;

use super::{
    transactions_container::{
        TransactionsContainer as _,
        TransactionsForAccount as _,
    },
    *,
};
use crate::{
    accounts::{
        StateReadExt as _,
        StateWriteExt as _,
    },
    assets::StateWriteExt as _,
    checked_transaction::CheckedTransaction,
    fees::StateWriteExt as _,
    test_utils::{
        astria_address,
        Fixture,
    },
};

struct Acct {
    key: SigningKey,
    addr: [u8; ADDRESS_LENGTH],
    name: String,
    next_build_nonce: u32,
}

struct Known {
    tx: Arc<CheckedTransaction>,
    acct: usize,
    nonce: u32,
    group: String,
}

fn costs_json(c: &HashMap<IbcPrefixed, u128>) -> serde_json::Value {
    let mut m = serde_json::Map::new();
    for (a, n) in c {
        if *n > 0 {
            m.insert(a.to_string(), json!(n.to_string()));
        }
    }
    m.into()
}

fn new_mempool(metrics: &'static crate::Metrics, ttl: Duration, parked_max: usize) -> Mempool {
    let inner = MempoolInner {
        pending: PendingTransactions::new(ttl),
        parked: ParkedTransactions::new(ttl, parked_max),
        comet_bft_removal_cache: RemovalCache::new(NonZeroUsize::try_from(REMOVAL_CACHE_SIZE).unwrap()),
        recent_execution_results: RecentExecutionResults::new(1_000),
        contained_txs: HashSet::new(),
        metrics,
    };
    Mempool { inner: Arc::new(RwLock::new(inner)) }
}

/// Reads the private structure under the mempool's own write lock (a quiescent point: no operation is in flight).
async fn walk(mempool: &Mempool, accts: &[Acct]) -> serde_json::Value {
    let inner = mempool.inner.write().await;
    // the guarded hook in the mempool records the order of its lock sections; the walk is a section of its own
    super::verif_hook::record("walk", None);
    let name = |a: &[u8; ADDRESS_LENGTH]| accts.iter().find(|x| &x.addr == a).map(|x| x.name.clone()).unwrap_or_else(|| vlog::hex(a));
    let mut pending = serde_json::Map::new();
    for (a, acc) in inner.pending.txs() {
        pending.insert(name(a), acc.txs().iter().map(|(n, t)| json!([n, t.id().to_string()])).collect());
    }
    let mut parked = serde_json::Map::new();
    for (a, acc) in inner.parked.txs() {
        parked.insert(name(a), acc.txs().iter().map(|(n, t)| json!([n, t.id().to_string()])).collect());
    }
    let mut contained: Vec<String> = inner.contained_txs.iter().map(ToString::to_string).collect();
    contained.sort();
    json!({"pending": pending, "parked": parked, "contained": contained, "len": inner.len()})
}

fn status_str(s: Option<TransactionStatus>) -> String {
    match s {
        None => "none".into(),
        Some(TransactionStatus::Pending) => "pending".into(),
        Some(TransactionStatus::Parked) => "parked".into(),
        Some(TransactionStatus::Removed(r)) => format!("removed:{}", format!("{r:?}").split(|c: char| !c.is_alphanumeric()).next().unwrap_or("")),
    }
}

#[tokio::test(flavor = "multi_thread", worker_threads = 2)]
async fn model_walk() {
    let log = VLog::open("c13-mempool");
    let (shard, shards) = vlog::shard();
    let runs = vlog::env_u64("VERIF_RUNS", 4);
    let ops = vlog::env_u64("VERIF_OPS", 400);
    for r in 0..runs {
        let run = shard + r * shards;
        one_run(&log, run, ops).await;
    }
    log.end();
}

async fn one_run(log: &VLog, run: u64, ops: u64) {
    let mut rng = ChaChaRng::seed_from_u64(vlog::seed().wrapping_mul(7919).wrapping_add(run) ^ 0xC13);
    let mut fixture = Fixture::default_initialized().await;
    let metrics = fixture.metrics();
    let ttl_ms = if rng.gen_bool(0.5) { 40 } else { 240_000 };
    let parked_max = [3usize, 20, 100][rng.gen_range(0..3)];
    let mempool = new_mempool(metrics, Duration::from_millis(ttl_ms), parked_max);
    let assets: Vec<Denom> = vec!["nria".parse().unwrap(), "denom-x".parse().unwrap(), "denom-y".parse().unwrap()];
    for a in &assets[1..] {
        fixture.state_mut().put_ibc_asset(a.clone().unwrap_trace_prefixed()).unwrap();
    }
    let nacct = rng.gen_range(2..=5);
    let mut accts: Vec<Acct> = (0..nacct)
        .map(|i| {
            let key = SigningKey::new(&mut rng);
            Acct { addr: key.address_bytes(), key, name: format!("M{i}"), next_build_nonce: 0 }
        })
        .collect();
    for a in &accts {
        for (k, d) in assets.iter().enumerate() {
            let bal = match rng.gen_range(0..4) {
                0 => 0u128,
                1 => rng.gen_range(1..5_000),
                _ => rng.gen_range(10_000..2_000_000),
            };
            if k == 0 || bal > 0 {
                fixture.state_mut().put_account_balance(&a.addr, d, if k == 0 { bal.max(50_000) } else { bal }).unwrap();
            }
        }
    }
    // rollup data fee: base + mult * len in nria; transfer fee as configured by the fixture
    let mut rd_fee = (rng.gen_range(0..200u128), rng.gen_range(0..30u128));
    fixture.state_mut().put_fees(FeeComponents::<RollupDataSubmission>::new(rd_fee.0, rd_fee.1)).unwrap();
    log.ev(json!({"kind": "mp_start", "run": run, "ttl_ms": ttl_ms, "parked_max": parked_max, "per_account_parked_max": MAX_PARKED_TXS_PER_ACCOUNT,
        "accounts": accts.iter().map(|a| a.name.clone()).collect::<Vec<_>>(), "assets": assets.iter().map(|d| d.to_ibc_prefixed().to_string()).collect::<Vec<_>>()}));

    let mut known: HashMap<String, Known> = HashMap::new();
    let mut live_order: Vec<String> = vec![]; // ids ever accepted, for sweeps
    let mut prebuilt: Vec<(usize, Arc<CheckedTransaction>)> = vec![];
    let mut height = 10u64;

    // forced scenario: a burst of consecutive cheap transactions for one account, then its balance drained
    let mut burst: Option<(usize, u32)> = None;
    let mut drain: Option<usize> = None;
    for op in 0..ops {
        let mut choice = rng.gen_range(0..100);
        if burst.is_none() && drain.is_none() && rng.gen_bool(0.01) {
            burst = Some((rng.gen_range(0..nacct), rng.gen_range(17..24)));
        }
        if burst.is_some() {
            choice = 0;
        } else if drain.is_some() {
            choice = 62;
        }
        let mut maintenance: Option<(bool, HashMap<TransactionId, Arc<ExecTxResult>>)> = None;
        let mut opj;
        if choice < 50 {
            // ---------------- insert
            let mut ai = rng.gen_range(0..accts.len());
            let mut variant = rng.gen_range(0..4);
            let in_burst = burst.is_some();
            if let Some((a, left)) = burst {
                ai = a;
                variant = 3;
                burst = if left > 1 { Some((a, left - 1)) } else { None };
                if burst.is_none() {
                    drain = Some(a);
                }
            }
            let (signer_key, signer_addr) = if variant == 1 {
                (crate::test_utils::SUDO.clone(), crate::test_utils::SUDO.address_bytes())
            } else {
                (accts[ai].key.clone(), accts[ai].addr)
            };
            let chain_nonce = fixture.state().get_account_nonce(&signer_addr).await.unwrap();
            let in_pool = {
                let inner = mempool.inner.read().await;
                inner.pending.txs().get(&signer_addr).map_or(0, |a| a.txs().len()) as u32
            };
            let reuse = !in_burst && !prebuilt.is_empty() && rng.gen_bool(0.12);
            let (tx, kind) = if reuse {
                let k = rng.gen_range(0..prebuilt.len());
                (prebuilt[k].1.clone(), "reinsert_or_stale")
            } else {
                let nonce = match if in_burst { 9 } else { rng.gen_range(0..10) } {
                    0 => chain_nonce + in_pool + 1 + rng.gen_range(0..3), // gap
                    1 => chain_nonce + rng.gen_range(0..=in_pool),        // taken or current
                    2 => chain_nonce + in_pool + rng.gen_range(0..20),    // maybe far ahead
                    _ => chain_nonce + in_pool,
                };
                let b = fixture.checked_tx_builder().with_signer(signer_key.clone()).with_nonce(nonce);
                let b = match variant {
                    0 => {
                        let asset = assets[rng.gen_range(0..assets.len())].clone();
                        let amount = match rng.gen_range(0..4) {
                            0 => rng.gen_range(0..50),
                            1 => rng.gen_range(1_000..100_000),
                            _ => rng.gen_range(1..5_000),
                        };
                        b.with_action(Transfer { to: astria_address(&[9; 20]), amount, asset, fee_asset: assets[0].clone() })
                    }
                    1 => b.with_action(FeeChange::Transfer(FeeComponents::new(rng.gen_range(0..20), 0))),
                    _ => {
                        let len = if in_burst { 1 } else { rng.gen_range(1..400) };
                        b.with_rollup_data_submission(vec![7u8; len])
                    }
                };
                (b.build().await, "fresh")
            };
            // the FeeChange variant is signed by SUDO, which is not one of our accounts: map it
            let signer_addr = *tx.address_bytes();
            let ai = match accts.iter().position(|a| a.addr == signer_addr) {
                Some(i) => i,
                None => {
                    accts.push(Acct { key: crate::test_utils::SUDO.clone(), addr: signer_addr, name: "SUDO".into(), next_build_nonce: 0 });
                    accts.len() - 1
                }
            };
            let shown_nonce = fixture.state().get_account_nonce(&accts[ai].addr).await.unwrap();
            let shown_balances = get_account_balances(fixture.state(), &accts[ai].addr).await.unwrap();
            let costs = tx.total_costs(fixture.state()).await.unwrap_or_default();
            let id = tx.id().to_string();
            // through the real CheckTx boundary (status lookup, construction, costs, insert), and - like
            // `handle_check_tx_request` - a reported removal clears the removal-cache entry
            let outcome = crate::service::mempool::check_tx(tx.encoded_bytes().clone(), fixture.state(), &mempool, metrics).await;
            let oc = format!("{outcome:?}");
            let class = oc.split(|c: char| !c.is_alphanumeric()).next().unwrap_or("").to_string();
            if class == "RemovedFromMempool" {
                mempool.remove_from_removal_cache(tx.id()).await;
            }
            let res: Result<(), ()> = if class == "AddedToPending" || class == "AddedToParked" { Ok(()) } else { Err(()) };
            let result = match class.as_str() {
                "AddedToPending" => "pending".to_string(),
                "AddedToParked" => "parked".to_string(),
                other => format!("err:{other}:{}", oc.chars().take(100).collect::<String>()),
            };
            if res.is_ok() {
                if !known.contains_key(&id) {
                    live_order.push(id.clone());
                }
                known.insert(id.clone(), Known { tx: tx.clone(), acct: ai, nonce: tx.nonce(), group: format!("{:?}", tx.group()) });
                if !reuse && rng.gen_bool(0.3) {
                    prebuilt.push((ai, tx.clone()));
                }
            }
            opj = json!({"op": "insert", "kind": kind, "acct": accts[ai].name, "id": id, "nonce": tx.nonce(), "group": format!("{:?}", tx.group()),
                "costs": costs_json(&costs), "shown_nonce": shown_nonce, "shown_balances": costs_json(&shown_balances), "result": result});
        } else if choice < 62 {
            // ---------------- a block: include a prefix of the builder queue
            let queue = mempool.builder_queue().await;
            let take = if queue.is_empty() { 0 } else { rng.gen_range(0..=queue.len()) };
            let mut results = HashMap::new();
            let mut included = vec![];
            let mut next: HashMap<[u8; ADDRESS_LENGTH], u32> = HashMap::new();
            for tx in queue.iter().take(take) {
                let addr = *tx.address_bytes();
                let cur = match next.get(&addr) {
                    Some(n) => *n,
                    None => fixture.state().get_account_nonce(&addr).await.unwrap(),
                };
                if tx.nonce() != cur {
                    continue; // would fail execution; the proposer skips it
                }
                // pay
                let costs = tx.total_costs(fixture.state()).await.unwrap_or_default();
                let mut affordable = true;
                for (asset, c) in &costs {
                    let b = fixture.state().get_account_balance(&addr, asset).await.unwrap();
                    if b < *c {
                        affordable = false;
                    }
                }
                if !affordable {
                    continue;
                }
                for (asset, c) in &costs {
                    let b = fixture.state().get_account_balance(&addr, asset).await.unwrap();
                    fixture.state_mut().put_account_balance(&addr, asset, b - c).unwrap();
                }
                next.insert(addr, cur + 1);
                results.insert(*tx.id(), Arc::new(ExecTxResult::default()));
                included.push(tx.id().to_string());
            }
            for (addr, n) in next {
                fixture.state_mut().put_account_nonce(&addr, n).unwrap();
            }
            height += 1;
            opj = json!({"op": "block", "height": height, "queue_len": queue.len(), "included": included});
            maintenance = Some((false, results));
        } else if choice < 72 {
            // ---------------- balance move
            let mut ai = rng.gen_range(0..accts.len());
            let mut asset = assets[rng.gen_range(0..assets.len())].clone();
            let mut pick = rng.gen_range(0..5);
            if let Some(a) = drain.take() {
                ai = a;
                asset = assets[0].clone();
                pick = 0;
            }
            let old = fixture.state().get_account_balance(&accts[ai].addr, &asset).await.unwrap();
            let new = match pick {
                0 => 0,
                1 => old / 2,
                2 => old.saturating_sub(rng.gen_range(0..2_000)),
                3 => old + rng.gen_range(0..50_000),
                _ => rng.gen_range(0..3_000),
            };
            fixture.state_mut().put_account_balance(&accts[ai].addr, &asset, new).unwrap();
            opj = json!({"op": "balance", "acct": accts[ai].name, "asset": asset.to_ibc_prefixed().to_string(), "old": old.to_string(), "new": new.to_string()});
            maintenance = Some((false, HashMap::new()));
        } else if choice < 78 {
            // ---------------- nonce jump (transactions of this account got included through another node)
            let ai = rng.gen_range(0..accts.len());
            let old = fixture.state().get_account_nonce(&accts[ai].addr).await.unwrap();
            let new = old + rng.gen_range(1..4);
            fixture.state_mut().put_account_nonce(&accts[ai].addr, new).unwrap();
            opj = json!({"op": "nonce_jump", "acct": accts[ai].name, "old": old, "new": new});
            maintenance = Some((false, HashMap::new()));
        } else if choice < 84 {
            // ---------------- fee change + recost
            rd_fee = (rng.gen_range(0..400u128), rng.gen_range(0..60u128));
            fixture.state_mut().put_fees(FeeComponents::<RollupDataSubmission>::new(rd_fee.0, rd_fee.1)).unwrap();
            opj = json!({"op": "fee_change", "base": rd_fee.0.to_string(), "mult": rd_fee.1.to_string()});
            maintenance = Some((true, HashMap::new()));
        } else if choice < 92 {
            // ---------------- invalid-removal of a live transaction
            let live: Vec<&String> = live_order.iter().collect();
            if live.is_empty() {
                continue;
            }
            let id = live[rng.gen_range(0..live.len())].clone();
            let k = &known[&id];
            mempool.remove_tx_invalid(k.tx.clone(), RemovalReason::FailedExecution("verif".into())).await;
            opj = json!({"op": "remove_invalid", "id": id, "acct": accts[k.acct].name, "nonce": k.nonce});
        } else if choice < 96 {
            // ---------------- time passes
            if ttl_ms < 1000 {
                tokio::time::sleep(Duration::from_millis(ttl_ms + 15)).await;
                opj = json!({"op": "sleep_past_ttl"});
                maintenance = Some((false, HashMap::new()));
            } else {
                opj = json!({"op": "maintenance_only"});
                maintenance = Some((false, HashMap::new()));
            }
        } else {
            opj = json!({"op": "maintenance_only"});
            maintenance = Some((false, HashMap::new()));
        }
        let mut recosted = serde_json::Value::Null;
        if let Some((recost, results)) = maintenance {
            mempool.run_maintenance(fixture.state(), recost, results, height).await;
            opj["maintenance"] = json!(true);
            // chain state the maintenance run saw, per account
            let mut shown = serde_json::Map::new();
            for a in &accts {
                let n = fixture.state().get_account_nonce(&a.addr).await.unwrap();
                let b = get_account_balances(fixture.state(), &a.addr).await.unwrap();
                shown.insert(a.name.clone(), json!({"nonce": n, "balances": costs_json(&b)}));
            }
            opj["chain"] = shown.into();
            if recost {
                let mut m = serde_json::Map::new();
                for (id, k) in &known {
                    m.insert(id.clone(), costs_json(&k.tx.total_costs(fixture.state()).await.unwrap_or_default()));
                }
                recosted = m.into();
            }
        }
        // observation at the quiescent point
        let w = walk(&mempool, &accts).await;
        let queue: Vec<serde_json::Value> = mempool
            .builder_queue()
            .await
            .iter()
            .map(|t| {
                let an = accts.iter().find(|a| &a.addr == t.address_bytes()).map(|a| a.name.clone()).unwrap_or_default();
                json!([an, t.nonce(), format!("{:?}", t.group()), t.id().to_string()])
            })
            .collect();
        let mut status = serde_json::Map::new();
        for id in &live_order {
            let tid = *known[id].tx.id();
            status.insert(id.clone(), json!(status_str(mempool.transaction_status(&tid).await)));
        }
        log.ev(json!({"kind": "mp_op", "run": run, "n": op, "op": opj, "walk": w, "queue": queue, "status": status, "recosted": recosted}));
    }
    log.ev(json!({"kind": "mp_end", "run": run, "ops": ops}));
    log.flush();
}

// =====================================================================================================================
// Concurrent stress (C13, schedule diversity): CheckTx tasks, status / builder-queue readers and the consensus side
// (block inclusion, invalid-removal, chain-state moves, maintenance) run *concurrently* on a multi-thread runtime
// against one `Mempool`. CheckTx tasks work on whatever chain-state snapshot was published when they started, which
// may be older than the one maintenance ran against (as in the real service, where CheckTx reads the latest storage
// snapshot while FinalizeBlock/Commit proceed). Every call and return is logged with one global sequence number; at the
// end of each round (all tasks joined = quiescent) maintenance runs against the final chain state and the private
// structure is walked exactly as in `model_walk`, so the same offline oracle judges it. Readers additionally record
// every builder queue and every status they were given while the other tasks were running.
// =====================================================================================================================

type Snap = Arc<cnidarium::StateDelta<cnidarium::Snapshot>>;

struct Shared {
    published: std::sync::RwLock<Snap>,
    accepted: std::sync::Mutex<Vec<TransactionId>>,
    stop_readers: std::sync::atomic::AtomicBool,
}

async fn jitter(rng: &mut ChaChaRng) {
    match rng.gen_range(0..10) {
        0..=3 => {}
        4..=7 => {
            for _ in 0..rng.gen_range(1..4) {
                tokio::task::yield_now().await;
            }
        }
        8 => tokio::time::sleep(Duration::from_micros(rng.gen_range(20..400))).await,
        _ => tokio::time::sleep(Duration::from_millis(rng.gen_range(1..3))).await,
    }
}

#[tokio::test(flavor = "multi_thread", worker_threads = 6)]
async fn conc_stress() {
    let log = Arc::new(VLog::open("c13-conc"));
    let (shard, shards) = vlog::shard();
    let runs = vlog::env_u64("VERIF_CONC_RUNS", 2);
    let rounds = vlog::env_u64("VERIF_CONC_ROUNDS", 6);
    for r in 0..runs {
        conc_run(&log, shard + r * shards, rounds).await;
    }
    log.end();
}

async fn conc_run(log: &Arc<VLog>, run: u64, rounds: u64) {
    let mut rng = ChaChaRng::seed_from_u64(vlog::seed().wrapping_mul(104_729).wrapping_add(run) ^ 0xC13C);
    let mut fixture = Fixture::default_initialized().await;
    let metrics = fixture.metrics();
    let parked_max = [6usize, 60, 60, 200][rng.gen_range(0..4)];
    let mempool = new_mempool(metrics, Duration::from_secs(240), parked_max);
    let assets: Vec<Denom> = vec!["nria".parse().unwrap(), "denom-x".parse().unwrap()];
    fixture.state_mut().put_ibc_asset(assets[1].clone().unwrap_trace_prefixed()).unwrap();
    let nacct = rng.gen_range(2..=4usize);
    let mut accts: Vec<Acct> = (0..nacct)
        .map(|i| {
            let key = SigningKey::new(&mut rng);
            Acct { addr: key.address_bytes(), key, name: format!("M{i}"), next_build_nonce: 0 }
        })
        .collect();
    accts.push(Acct { key: crate::test_utils::SUDO.clone(), addr: crate::test_utils::SUDO.address_bytes(), name: "SUDO".into(), next_build_nonce: 0 });
    for a in &accts {
        let bal = if rng.gen_bool(0.3) { rng.gen_range(2_000..20_000u128) } else { rng.gen_range(100_000..3_000_000u128) };
        fixture.state_mut().put_account_balance(&a.addr, &assets[0], bal).unwrap();
        if rng.gen_bool(0.6) {
            fixture.state_mut().put_account_balance(&a.addr, &assets[1], rng.gen_range(1..50_000u128)).unwrap();
        }
    }
    fixture.state_mut().put_fees(FeeComponents::<RollupDataSubmission>::new(rng.gen_range(0..200u128), rng.gen_range(0..30u128))).unwrap();
    log.ev(json!({"kind": "mp_start", "run": run, "mode": "concurrent", "ttl_ms": 240_000, "parked_max": parked_max, "per_account_parked_max": MAX_PARKED_TXS_PER_ACCOUNT,
        "accounts": accts.iter().map(|a| a.name.clone()).collect::<Vec<_>>(), "assets": assets.iter().map(|d| d.to_ibc_prefixed().to_string()).collect::<Vec<_>>()}));

    let shared = Arc::new(Shared {
        published: std::sync::RwLock::new(Arc::new(fixture.state_mut().fork())),
        accepted: std::sync::Mutex::new(vec![]),
        stop_readers: std::sync::atomic::AtomicBool::new(false),
    });
    let mut known: HashMap<String, Known> = HashMap::new();
    let mut live_order: Vec<String> = vec![];
    let mut height = 10u64;
    let names: Arc<HashMap<[u8; ADDRESS_LENGTH], String>> = Arc::new(accts.iter().map(|a| (a.addr, a.name.clone())).collect());

    for round in 0..rounds {
        let t_round = std::time::Instant::now();
        // ---- build this round's transactions (single-threaded, before anything runs)
        let mut txs: Vec<(usize, Arc<CheckedTransaction>, serde_json::Value)> = vec![];
        for ai in 0..accts.len() {
            let a = &accts[ai];
            let chain_nonce = fixture.state().get_account_nonce(&a.addr).await.unwrap();
            let in_pool = {
                let inner = mempool.inner.read().await;
                inner.pending.txs().get(&a.addr).map_or(0, |x| x.txs().len()) as u32
            };
            let n = if a.name == "SUDO" { rng.gen_range(0..4u32) } else { rng.gen_range(3..14u32) };
            // mostly continue where this account's previous round stopped (so that parked transactions get their gaps
            // filled and promotions happen under concurrency); sometimes start again right behind the ready set
            let base = if rng.gen_bool(0.75) { chain_nonce.max(a.next_build_nonce) } else { chain_nonce + in_pool };
            let mut top = base;
            for k in 0..n {
                let nonce = match rng.gen_range(0..12) {
                    0 => base + k + rng.gen_range(1..4),               // gap -> parked
                    1 => chain_nonce + rng.gen_range(0..=in_pool),       // current or already taken (stale once blocks advance)
                    _ => base + k,
                };
                let b = fixture.checked_tx_builder().with_signer(a.key.clone()).with_nonce(nonce);
                let b = if a.name == "SUDO" {
                    b.with_action(FeeChange::Transfer(FeeComponents::new(rng.gen_range(0..20), 0)))
                } else if rng.gen_bool(0.5) {
                    let asset = assets[rng.gen_range(0..assets.len())].clone();
                    let amount = match rng.gen_range(0..5) {
                        0 => rng.gen_range(50_000..400_000),
                        _ => rng.gen_range(1..3_000),
                    };
                    b.with_action(Transfer { to: astria_address(&[9; 20]), amount, asset, fee_asset: assets[0].clone() })
                } else {
                    b.with_rollup_data_submission(vec![5u8; rng.gen_range(1..300)])
                };
                let tx: Arc<CheckedTransaction> = b.build().await;
                top = top.max(tx.nonce() + 1);
                let costs = tx.total_costs(fixture.state()).await.unwrap_or_default();
                let meta = json!({"acct": a.name, "nonce": tx.nonce(), "group": format!("{:?}", tx.group()), "costs": costs_json(&costs)});
                txs.push((ai, tx, meta));
            }
            accts[ai].next_build_nonce = top;
        }
        // one-shot accounts: fresh, funded accounts that submit exactly one transaction (nonce 0) during the round while the consensus
        // side marks their nonce as used through another node. Their first transaction reaches a mempool that holds nothing of
        // theirs yet, possibly in the middle of a maintenance run, and carries a nonce the chain has already used.
        let mut oneshots: Vec<([u8; ADDRESS_LENGTH], String)> = vec![];
        for _ in 0..rng.gen_range(4..10) {
            let key = SigningKey::new(&mut rng);
            let addr = key.address_bytes();
            fixture.state_mut().put_account_balance(&addr, &assets[0], 100_000).unwrap();
            let tx: Arc<CheckedTransaction> = fixture.checked_tx_builder().with_signer(key).with_nonce(0).with_rollup_data_submission(vec![3u8; rng.gen_range(1..40)]).build().await;
            let name = vlog::hex(&addr);
            let costs = tx.total_costs(fixture.state()).await.unwrap_or_default();
            let meta = json!({"acct": name, "nonce": 0, "group": format!("{:?}", tx.group()), "costs": costs_json(&costs), "oneshot": true});
            txs.push((usize::MAX, tx, meta));
            oneshots.push((addr, name));
        }
        *shared.published.write().unwrap() = Arc::new(fixture.state_mut().fork());
        // distribute over submitters; some transactions are submitted by two tasks (the same bytes racing)
        let nsub = rng.gen_range(3..=6usize);
        let mut per: Vec<Vec<(Arc<CheckedTransaction>, serde_json::Value)>> = vec![vec![]; nsub];
        for (_ai, tx, meta) in &txs {
            let s = rng.gen_range(0..nsub);
            per[s].push((tx.clone(), meta.clone()));
            if rng.gen_bool(0.15) {
                let s2 = rng.gen_range(0..nsub);
                per[s2].push((tx.clone(), meta.clone()));
            }
        }
        // each submitter sends mostly in nonce order (as a wallet would) with some local swaps
        for (s, list) in per.iter_mut().enumerate() {
            let _ = s;
            for i in 1..list.len() {
                if rng.gen_bool(0.15) {
                    list.swap(i - 1, i);
                }
            }
        }
        for (_ai, tx, _m) in &txs {
            known.entry(tx.id().to_string()).or_insert(Known { tx: tx.clone(), acct: 0, nonce: tx.nonce(), group: String::new() });
        }
        shared.stop_readers.store(false, std::sync::atomic::Ordering::SeqCst);
        super::verif_hook::SECTIONS.lock().unwrap_or_else(std::sync::PoisonError::into_inner).clear();
        let mut handles = vec![];
        for (s, list) in per.into_iter().enumerate() {
            let (log, shared, mempool) = (log.clone(), shared.clone(), mempool.clone());
            let mut trng = ChaChaRng::seed_from_u64(rng.next_u64());
            handles.push(tokio::spawn(async move {
                for (tx, meta) in list {
                    jitter(&mut trng).await;
                    let state: Snap = shared.published.read().unwrap().clone();
                    let id = tx.id().to_string();
                    log.ev(json!({"kind": "mc_call", "run": run, "round": round, "task": format!("sub{s}"), "op": "check_tx", "id": id}));
                    let outcome = crate::service::mempool::check_tx(tx.encoded_bytes().clone(), &*state, &mempool, metrics).await;
                    let oc = format!("{outcome:?}");
                    let class = oc.split(|c: char| !c.is_alphanumeric()).next().unwrap_or("").to_string();
                    let accepted = class == "AddedToPending" || class == "AddedToParked";
                    if accepted {
                        shared.accepted.lock().unwrap().push(*tx.id());
                    }
                    log.ev(json!({"kind": "mc_ret", "run": run, "round": round, "task": format!("sub{s}"), "op": "check_tx", "id": id, "class": class,
                        "accepted": accepted, "tx": meta, "detail": if accepted { String::new() } else { oc.chars().take(90).collect::<String>() }}));
                }
            }));
        }
        let nread = rng.gen_range(1..=3usize);
        let mut rhandles = vec![];
        for r in 0..nread {
            let (log, shared, mempool, names) = (log.clone(), shared.clone(), mempool.clone(), names.clone());
            let mut trng = ChaChaRng::seed_from_u64(rng.next_u64());
            rhandles.push(tokio::spawn(async move {
                let mut iters = 0u32;
                while !shared.stop_readers.load(std::sync::atomic::Ordering::SeqCst) && iters < 4_000 {
                    iters += 1;
                    jitter(&mut trng).await;
                    if trng.gen_bool(0.4) {
                        let q = mempool.builder_queue().await;
                        let queue: Vec<serde_json::Value> = q
                            .iter()
                            .map(|t| json!([names.get(t.address_bytes()).cloned().unwrap_or_default(), t.nonce(), format!("{:?}", t.group()), t.id().to_string()]))
                            .collect();
                        log.ev(json!({"kind": "mc_queue", "run": run, "round": round, "task": format!("rd{r}"), "queue": queue}));
                    } else {
                        let pick = {
                            let acc = shared.accepted.lock().unwrap();
                            if acc.is_empty() { None } else { Some(acc[trng.gen_range(0..acc.len())]) }
                        };
                        if let Some(tid) = pick {
                            log.ev(json!({"kind": "mc_call", "run": run, "round": round, "task": format!("rd{r}"), "op": "status", "id": tid.to_string()}));
                            let st = status_str(mempool.transaction_status(&tid).await);
                            log.ev(json!({"kind": "mc_ret", "run": run, "round": round, "task": format!("rd{r}"), "op": "status", "id": tid.to_string(), "status": st}));
                        }
                    }
                }
            }));
        }
        // ---- consensus side, on this task, concurrently with the above
        let blocks = rng.gen_range(2..6);
        for _b in 0..blocks {
            jitter(&mut rng).await;
            tokio::time::sleep(Duration::from_micros(rng.gen_range(100..1500))).await;
            let queue = mempool.builder_queue().await;
            let take = if queue.is_empty() { 0 } else { rng.gen_range(0..=queue.len()) };
            let mut results = HashMap::new();
            let mut included = vec![];
            let mut next: HashMap<[u8; ADDRESS_LENGTH], u32> = HashMap::new();
            let mut failed: Option<Arc<CheckedTransaction>> = None;
            for tx in queue.iter().take(take) {
                let addr = *tx.address_bytes();
                let cur = match next.get(&addr) {
                    Some(n) => *n,
                    None => fixture.state().get_account_nonce(&addr).await.unwrap(),
                };
                if tx.nonce() != cur {
                    continue;
                }
                let costs = tx.total_costs(fixture.state()).await.unwrap_or_default();
                let mut affordable = true;
                for (asset, c) in &costs {
                    if fixture.state().get_account_balance(&addr, asset).await.unwrap() < *c {
                        affordable = false;
                    }
                }
                if !affordable {
                    // the proposer evicts a transaction that fails execution
                    if failed.is_none() && rng.gen_bool(0.5) {
                        failed = Some(tx.clone());
                    }
                    continue;
                }
                for (asset, c) in &costs {
                    let b = fixture.state().get_account_balance(&addr, asset).await.unwrap();
                    fixture.state_mut().put_account_balance(&addr, asset, b - c).unwrap();
                }
                next.insert(addr, cur + 1);
                results.insert(*tx.id(), Arc::new(ExecTxResult::default()));
                included.push(tx.id().to_string());
            }
            if let Some(tx) = failed {
                log.ev(json!({"kind": "mc_call", "run": run, "round": round, "task": "consensus", "op": "remove_invalid", "id": tx.id().to_string()}));
                mempool.remove_tx_invalid(tx.clone(), RemovalReason::FailedExecution("verif".into())).await;
                log.ev(json!({"kind": "mc_ret", "run": run, "round": round, "task": "consensus", "op": "remove_invalid", "id": tx.id().to_string()}));
            }
            for (addr, n) in next {
                fixture.state_mut().put_account_nonce(&addr, n).unwrap();
            }
            // other chain-state moves: funds arriving / leaving, nonces consumed through another node
            if rng.gen_bool(0.35) {
                let ai = rng.gen_range(0..accts.len());
                let asset = assets[rng.gen_range(0..assets.len())].clone();
                let old = fixture.state().get_account_balance(&accts[ai].addr, &asset).await.unwrap();
                let new = match rng.gen_range(0..4) {
                    0 => 0,
                    1 => old / 2,
                    2 => old + rng.gen_range(0..80_000),
                    _ => rng.gen_range(0..6_000),
                };
                fixture.state_mut().put_account_balance(&accts[ai].addr, &asset, new).unwrap();
            }
            if rng.gen_bool(0.15) {
                let ai = rng.gen_range(0..accts.len());
                let old = fixture.state().get_account_nonce(&accts[ai].addr).await.unwrap();
                fixture.state_mut().put_account_nonce(&accts[ai].addr, old + rng.gen_range(1..3)).unwrap();
            }
            height += 1;
            let publish_first = rng.gen_bool(0.5);
            if publish_first {
                *shared.published.write().unwrap() = Arc::new(fixture.state_mut().fork());
                jitter(&mut rng).await;
            }
            // the single transaction of some one-shot accounts got included through another node
            for _ in 0..rng.gen_range(1..=3) {
                if let Some((addr, _)) = oneshots.get(rng.gen_range(0..oneshots.len().max(1))) {
                    fixture.state_mut().put_account_nonce(addr, 1).unwrap();
                }
            }
            let mut shown_nonces = serde_json::Map::new();
            for a in &accts {
                shown_nonces.insert(a.name.clone(), json!(fixture.state().get_account_nonce(&a.addr).await.unwrap()));
            }
            for (addr, name) in &oneshots {
                shown_nonces.insert(name.clone(), json!(fixture.state().get_account_nonce(addr).await.unwrap()));
            }
            log.ev(json!({"kind": "mc_call", "run": run, "round": round, "task": "consensus", "op": "maintenance", "height": height, "included": included,
                "shown_nonces": shown_nonces}));
            mempool.run_maintenance(fixture.state(), false, results, height).await;
            log.ev(json!({"kind": "mc_ret", "run": run, "round": round, "task": "consensus", "op": "maintenance", "height": height}));
            // what the pools hold right after this maintenance run, as its own lock section (judged with the section order of the hook)
            let w = walk(&mempool, &accts).await;
            log.ev(json!({"kind": "mc_walk", "run": run, "round": round, "height": height, "walk": w}));
            if !publish_first {
                jitter(&mut rng).await;
                *shared.published.write().unwrap() = Arc::new(fixture.state_mut().fork());
            }
        }
        for h in handles {
            h.await.expect("submitter task");
        }
        shared.stop_readers.store(true, std::sync::atomic::Ordering::SeqCst);
        for h in rhandles {
            h.await.expect("reader task");
        }
        // the order in which the mempool's lock sections ran during the concurrent phase
        let sections: Vec<serde_json::Value> = super::verif_hook::SECTIONS
            .lock()
            .unwrap_or_else(std::sync::PoisonError::into_inner)
            .drain(..)
            .map(|(k, id)| match id {
                Some(id) => json!([k, id.to_string()]),
                None => json!([k]),
            })
            .collect();
        log.ev(json!({"kind": "mc_sections", "run": run, "round": round, "sections": sections}));
        // ---- quiescent point: final maintenance against the final chain state, then the same observation as model_walk
        *shared.published.write().unwrap() = Arc::new(fixture.state_mut().fork());
        height += 1;
        mempool.run_maintenance(fixture.state(), false, HashMap::new(), height).await;
        let mut shown = serde_json::Map::new();
        for a in &accts {
            let n = fixture.state().get_account_nonce(&a.addr).await.unwrap();
            let b = get_account_balances(fixture.state(), &a.addr).await.unwrap();
            shown.insert(a.name.clone(), json!({"nonce": n, "balances": costs_json(&b)}));
        }
        for id in shared.accepted.lock().unwrap().iter() {
            let s = id.to_string();
            if !live_order.contains(&s) {
                live_order.push(s);
            }
        }
        let w = walk(&mempool, &accts).await;
        let queue: Vec<serde_json::Value> = mempool
            .builder_queue()
            .await
            .iter()
            .map(|t| json!([names.get(t.address_bytes()).cloned().unwrap_or_default(), t.nonce(), format!("{:?}", t.group()), t.id().to_string()]))
            .collect();
        let mut status = serde_json::Map::new();
        for id in &live_order {
            let tid = *known[id].tx.id();
            status.insert(id.clone(), json!(status_str(mempool.transaction_status(&tid).await)));
        }
        log.ev(json!({"kind": "mp_op", "run": run, "n": round, "op": {"op": "conc_round", "maintenance": true, "chain": shown, "submitters": nsub, "readers": nread,
            "blocks": blocks, "round_ms": t_round.elapsed().as_millis() as u64}, "walk": w, "queue": queue, "status": status, "recosted": serde_json::Value::Null}));
        log.flush();
    }
    log.ev(json!({"kind": "mp_end", "run": run, "ops": rounds}));
    log.flush();
}
