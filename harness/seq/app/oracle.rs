//! C15 harness: the real `ProposalHandler::{prepare_proposal, validate_proposal}` and price aggregation driven with
//! harness-signed vote extensions over enumerated voting-power vectors x signer subsets x defects, on top of a state
//! produced by the ChainSim (post-Aspen, so currency pairs and the market map exist). Recorder only; c15.py judges.
#![allow(clippy::pedantic, clippy::arithmetic_side_effects, dead_code, unused_imports)]

use std::sync::Arc;

use astria_core::{
    crypto::SigningKey,
    generated::price_feed::abci::v2::OracleVoteExtension as RawOracleVoteExtension,
    oracles::price_feed::types::v2::CurrencyPairId,
    protocol::{
        price_feed::v1::ExtendedCommitInfoWithCurrencyPairMapping,
        transaction::v1::action::ValidatorUpdate,
    },
};
use cnidarium::StateDelta;
use futures::TryStreamExt as _;
use prost::Message as _;
use rand::{
    Rng as _,
    SeedableRng as _,
};
use rand_chacha::ChaChaRng;
use serde_json::json;
use tendermint::{
    abci::types::{
        BlockSignatureInfo::Flag,
        CommitInfo,
        ExtendedCommitInfo,
        ExtendedVoteInfo,
        Validator,
        VoteInfo,
    },
    block::BlockIdFlag,
};
use tendermint_proto::v0_38::types::CanonicalVoteExtension;

use super::{
    sim::Sim,
    vlog,
    vlog::VLog,
};
use super::super::vote_extension::ProposalHandler;
use crate::{
    app::StateReadExt as _,
    authority::{
        StateReadExt as _,
        StateWriteExt as _,
    },
    oracles::price_feed::oracle::state_ext::StateReadExt as _,
};

const ALPHABET: [u32; 9] = [1, 2, 3, 5, 10, 33, 34, 67, 100];

#[derive(Clone)]
struct VoteSpec {
    validator: usize,          // index into keys; usize::MAX = a key that is not a validator
    flag: &'static str,        // commit | nil | absent
    sig: &'static str,         // valid | forged_other_key | signed_by_other_validator | wrong_height | wrong_round | wrong_chain | missing | corrupt
    prices: Vec<(u64, i128)>,  // (pair id, price)
    ext: &'static str,         // ok | too_many_prices | price_too_long | garbage | unknown_pair_id
}

fn ext_bytes(v: &VoteSpec, npairs: u64) -> Vec<u8> {
    let mut prices: std::collections::BTreeMap<u64, bytes::Bytes> =
        v.prices.iter().map(|(id, p)| (*id, bytes::Bytes::copy_from_slice(&p.to_be_bytes()))).collect();
    match v.ext {
        "too_many_prices" => {
            for k in 0..=npairs + 2 {
                prices.insert(1000 + k, bytes::Bytes::copy_from_slice(&7i128.to_be_bytes()));
            }
        }
        "price_too_long" => {
            prices.insert(v.prices.first().map_or(0, |p| p.0), bytes::Bytes::from(vec![1u8; 40]));
        }
        "unknown_pair_id" => {
            prices.insert(999_999, bytes::Bytes::copy_from_slice(&5i128.to_be_bytes()));
        }
        "garbage" => return vec![0xFF, 0x01, 0x02, 0x80, 0x80],
        _ => {}
    }
    RawOracleVoteExtension { prices: prices.into_iter().collect() }.encode_to_vec()
}

fn build(
    keys: &[SigningKey],
    outsider: &SigningKey,
    powers: &[u32],
    specs: &[VoteSpec],
    chain_id: &str,
    height: u64,
    round: u16,
    npairs: u64,
) -> ExtendedCommitInfo {
    let mut votes = vec![];
    for s in specs {
        let key = if s.validator == usize::MAX { outsider } else { &keys[s.validator] };
        let power = if s.validator == usize::MAX { 7 } else { powers[s.validator] };
        let ext = if s.flag == "commit" || s.sig == "nil_with_extension" { ext_bytes(s, npairs) } else { vec![] };
        let msg = |h: u64, r: u16, c: &str| {
            CanonicalVoteExtension { extension: ext.clone(), height: (h - 1) as i64, round: i64::from(r), chain_id: c.to_string() }.encode_length_delimited_to_vec()
        };
        let sign = |k: &SigningKey, m: Vec<u8>| -> tendermint::Signature { k.sign(&m).to_bytes().to_vec().try_into().unwrap() };
        let signature: Option<tendermint::Signature> = match s.sig {
            "valid" | "nil_with_extension" => Some(sign(key, msg(height, round, chain_id))),
            "forged_other_key" => Some(sign(outsider, msg(height, round, chain_id))),
            "signed_by_other_validator" => Some(sign(&keys[(s.validator + 1) % keys.len()], msg(height, round, chain_id))),
            "wrong_height" => Some(sign(key, msg(height + 1, round, chain_id))),
            "wrong_round" => Some(sign(key, msg(height, round + 1, chain_id))),
            "wrong_chain" => Some(sign(key, msg(height, round, "other-chain"))),
            "corrupt" => {
                let good = sign(key, msg(height, round, chain_id));
                let mut b = good.as_bytes().to_vec();
                b[9] ^= 4;
                Some(b.try_into().unwrap())
            }
            _ => None,
        };
        let flag = match s.flag {
            "commit" => BlockIdFlag::Commit,
            "nil" => BlockIdFlag::Nil,
            _ => BlockIdFlag::Absent,
        };
        let with_sig = s.flag == "commit" || s.sig == "nil_with_extension";
        votes.push(ExtendedVoteInfo {
            validator: Validator { address: key.address_bytes(), power: power.into() },
            sig_info: Flag(flag),
            extension_signature: if with_sig { signature } else { None },
            vote_extension: ext.into(),
        });
    }
    ExtendedCommitInfo { round: round.into(), votes }
}

fn last_commit_of(eci: &ExtendedCommitInfo) -> CommitInfo {
    CommitInfo {
        round: eci.round,
        votes: eci.votes.iter().map(|v| VoteInfo { validator: v.validator.clone(), sig_info: v.sig_info }).collect(),
    }
}

fn specs_json(specs: &[VoteSpec]) -> serde_json::Value {
    specs
        .iter()
        .map(|s| json!({"v": if s.validator == usize::MAX { -1 } else { s.validator as i64 }, "flag": s.flag, "sig": s.sig, "ext": s.ext,
            "prices": s.prices.iter().map(|(i, p)| json!([i, p.to_string()])).collect::<Vec<_>>()}))
        .collect()
}

fn pick_price(rng: &mut ChaChaRng) -> i128 {
    match rng.gen_range(0..12) {
        0 => 0,
        1 => -1,
        2 => -3,
        3 => 1,
        4 => 3,
        5 => i128::MAX,
        6 => i128::MIN,
        7 => i128::MAX - 1,
        8 => -(rng.gen_range(1..1000) as i128),
        9 => i128::MIN + rng.gen_range(0..3) as i128,
        _ => rng.gen_range(1..1_000_000) as i128,
    }
}

#[tokio::test(flavor = "multi_thread", worker_threads = 2)]
async fn oracle_sweep() {
    let log = Arc::new(VLog::open("c15-oracle"));
    let (shard, shards) = vlog::shard();
    let mut rng = ChaChaRng::seed_from_u64(vlog::seed().wrapping_mul(31) ^ 0xC15 ^ (shard << 24));
    // a chain just past Aspen: validators are stored per entry, currency pairs exist
    let mut sim = Sim::new(log.clone(), vlog::seed(), 9000 + shard, "empty").await;
    while sim.height <= sim.upgrades.1 + 1 {
        sim.run_height().await;
        assert!(sim.ok, "base chain failed");
    }
    let snapshot = sim.nodes[0].storage.latest_snapshot();
    let height = sim.height + 1;
    let chain_id = snapshot.get_chain_id().await.unwrap().to_string();
    let pairs: Vec<(u64, String)> = snapshot
        .currency_pairs_with_ids()
        .try_collect::<Vec<_>>()
        .await
        .unwrap()
        .into_iter()
        .map(|p| (p.id, p.currency_pair.to_string()))
        .collect();
    let npairs = pairs.len() as u64;
    log.ev(json!({"kind": "oracle_base", "height": height, "chain_id": chain_id, "pairs": pairs}));
    let keys: Vec<SigningKey> = (0..5).map(|_| SigningKey::new(&mut rng)).collect();
    let outsider = SigningKey::new(&mut rng);
    let existing: Vec<ValidatorUpdate> = snapshot.get_validators().try_collect().await.unwrap();

    let max_exh = if vlog::thorough() { 4 } else { 3 };
    let mut vectors: Vec<Vec<u32>> = vec![];
    for n in 1..=max_exh {
        for code in 0..ALPHABET.len().pow(n as u32) {
            let mut c = code;
            vectors.push((0..n).map(|_| { let p = ALPHABET[c % ALPHABET.len()]; c /= ALPHABET.len(); p }).collect());
        }
    }
    for _ in 0..(if vlog::thorough() { 3000 } else { 300 }) {
        let n = rng.gen_range(4..=5);
        vectors.push((0..n).map(|_| if rng.gen_bool(0.5) { ALPHABET[rng.gen_range(0..ALPHABET.len())] } else { rng.gen_range(1..1000) }).collect());
    }
    let mut case_no = 0u64;
    for (vi, powers) in vectors.iter().enumerate() {
        if vi as u64 % shards != shard {
            continue;
        }
        let n = powers.len();
        // state with exactly these validators
        let mut state = StateDelta::new(snapshot.clone());
        for v in &existing {
            state.remove_validator(&v.verification_key).await;
        }
        for i in 0..n {
            state.put_validator(&ValidatorUpdate { power: powers[i], verification_key: keys[i].verification_key(), name: format!("v{i}").parse().unwrap() }).unwrap();
        }
        state.put_validator_count(n as u64).unwrap();
        // all masks for small n, sampled masks otherwise
        let masks: Vec<u32> = if n <= 3 { (0..(1u32 << n)).collect() } else { (0..6).map(|_| rng.gen_range(0..(1u32 << n))).collect() };
        for mask in masks {
            let round = (case_no % 3) as u16;
            let prices_for = |rng: &mut ChaChaRng| -> Vec<(u64, i128)> {
                {
                    let mut v = vec![];
                    for (id, _) in &pairs {
                        if rng.gen_bool(0.85) {
                            v.push((*id, pick_price(rng)));
                        }
                    }
                    v
                }
            };
            let base: Vec<VoteSpec> = (0..n)
                .map(|i| {
                    let signs = mask & (1 << i) != 0;
                    VoteSpec { validator: i, flag: if signs { "commit" } else if case_no % 2 == 0 { "absent" } else { "nil" }, sig: if signs { "valid" } else { "none" },
                        prices: if signs { prices_for(&mut rng) } else { vec![] }, ext: "ok" }
                })
                .collect();
            let mut variants: Vec<(&'static str, Vec<VoteSpec>, &'static str)> = vec![("all_valid", base.clone(), "match")];
            let signers: Vec<usize> = (0..n).filter(|i| mask & (1 << i) != 0).collect();
            if !signers.is_empty() {
                let who = signers[rng.gen_range(0..signers.len())];
                let defect = ["forged_other_key", "signed_by_other_validator", "wrong_height", "wrong_round", "wrong_chain", "missing", "corrupt"][(case_no % 7) as usize];
                if !(defect == "signed_by_other_validator" && keys.len() < 2) {
                    let mut s = base.clone();
                    s[who].sig = defect;
                    variants.push(("one_bad_signature", s, "match"));
                }
                let ext_defect = ["too_many_prices", "price_too_long", "garbage", "unknown_pair_id"][(case_no % 4) as usize];
                let mut s = base.clone();
                s[who].ext = ext_defect;
                variants.push(("one_bad_extension", s, "match"));
                // a signer listed twice
                let mut s = base.clone();
                s.push(base[who].clone());
                variants.push(("duplicate_voter", s, "match"));
                // an outsider contributes
                let mut s = base.clone();
                s.push(VoteSpec { validator: usize::MAX, flag: "commit", sig: "valid", prices: prices_for(&mut rng), ext: "ok" });
                variants.push(("outsider_votes", s, "match"));
                // extended commit does not match the last commit
                let mism = ["round", "dropped_vote", "power", "flag", "address"][(case_no % 5) as usize];
                variants.push(("last_commit_mismatch", base.clone(), mism));
                // a nil vote carrying an extension
                if let Some(nv) = (0..n).find(|i| mask & (1 << i) == 0) {
                    let mut s = base.clone();
                    s[nv].flag = "nil";
                    s[nv].sig = "nil_with_extension";
                    s[nv].prices = prices_for(&mut rng);
                    variants.push(("nil_with_extension", s, "match"));
                }
            }
            for (class, specs, commit_mode) in variants {
                case_no += 1;
                let eci = build(&keys, &outsider, powers, &specs, &chain_id, height, round, npairs);
                let mut last_commit = last_commit_of(&eci);
                match commit_mode {
                    "round" => last_commit.round = (round + 1).into(),
                    "dropped_vote" => {
                        last_commit.votes.pop();
                    }
                    "power" => {
                        if let Some(v) = last_commit.votes.first_mut() {
                            v.validator.power = (u64::from(v.validator.power) as u32 + 1).into();
                        }
                    }
                    "flag" => {
                        if let Some(v) = last_commit.votes.iter_mut().find(|v| v.sig_info == Flag(BlockIdFlag::Commit)) {
                            v.sig_info = Flag(BlockIdFlag::Nil);
                        }
                    }
                    "address" => {
                        if let Some(v) = last_commit.votes.first_mut() {
                            v.validator.address[0] ^= 1;
                        }
                    }
                    _ => {}
                }
                // the mapping an honest proposer would attach: from the all-valid twin
                let honest = build(&keys, &outsider, powers, &base.iter().map(|s| VoteSpec { sig: if s.flag == "commit" { "valid" } else { "none" }, ext: "ok", ..s.clone() }).collect::<Vec<_>>(), &chain_id, height, round, npairs);
                let mapping = match ProposalHandler::prepare_proposal(&state, height, honest.clone()).await {
                    Ok(m) => m.id_to_currency_pair,
                    Err(_) => {
                        // no quorum among the honest twin: ask with everybody signing to obtain the mapping
                        let all: Vec<VoteSpec> = (0..n).map(|i| VoteSpec { validator: i, flag: "commit", sig: "valid", prices: pairs.iter().map(|(id, _)| (*id, 1)).collect(), ext: "ok" }).collect();
                        let e = build(&keys, &outsider, powers, &all, &chain_id, height, round, npairs);
                        ProposalHandler::prepare_proposal(&state, height, e).await.map(|m| m.id_to_currency_pair).unwrap_or_default()
                    }
                };
                // what prepare_proposal itself does with these votes (prunes bad extensions, must never fail hard)
                let prepared = super::sim::vlog_guard_async(ProposalHandler::prepare_proposal(&state, height, eci.clone())).await;
                let prepare_outcome = match &prepared {
                    Ok(Ok(m)) => format!("ok:{}", m.extended_commit_info.votes.iter().filter(|v| !v.vote_extension.is_empty()).count()),
                    Ok(Err(e)) => format!("err:{}", format!("{e:#}").chars().take(90).collect::<String>()),
                    Err(p) => format!("panic:{p}"),
                };
                let with_mapping = ExtendedCommitInfoWithCurrencyPairMapping::new(eci.clone(), mapping.clone());
                let res = super::sim::vlog_guard_async(ProposalHandler::validate_proposal(&state, height, &last_commit, &with_mapping)).await;
                let (accepted, err) = match &res {
                    Ok(Ok(())) => (true, String::new()),
                    Ok(Err(e)) => (false, format!("{e:#}").chars().take(140).collect()),
                    Err(p) => (false, format!("PANIC {p}")),
                };
                let mut published = json!(null);
                if accepted {
                    let r = vlog::guarded(|| astria_core::oracles::price_feed::utils::calculate_prices_from_vote_extensions(&eci, &mapping));
                    published = match r {
                        Ok(Ok(prices)) => prices.iter().map(|p| json!([p.currency_pair().to_string(), p.price().to_string()])).collect(),
                        Ok(Err(e)) => json!({"error": format!("{e:#}")}),
                        Err(p) => json!({"panic": p}),
                    };
                }
                log.ev(json!({"kind": "oracle_case", "class": class, "commit_mode": commit_mode, "powers": powers, "votes": specs_json(&specs), "round": round,
                    "accepted": accepted, "err": err, "panic": res.is_err(), "prepare": prepare_outcome, "published": published,
                    "pair_ids": mapping.iter().map(|(id, info)| json!([id.get(), info.currency_pair.to_string()])).collect::<Vec<_>>()}));
            }
        }
        // the empty extended commit must always be acceptable (with the matching round)
        let empty = ExtendedCommitInfoWithCurrencyPairMapping::empty(0u16.into());
        let lc = CommitInfo { round: 0u16.into(), votes: (0..n).map(|i| VoteInfo { validator: Validator { address: keys[i].address_bytes(), power: powers[i].into() }, sig_info: Flag(BlockIdFlag::Commit) }).collect() };
        let res = ProposalHandler::validate_proposal(&state, height, &lc, &empty).await;
        log.ev(json!({"kind": "oracle_empty", "powers": powers, "accepted": res.is_ok(), "err": res.err().map(|e| format!("{e:#}"))}));
    }
    log.end();
}
