//! Universe (keys, assets, fees, validators), genesis, and the state-aware adversarial transaction generator.
//! The generator's knowledge of the chain is only used to *aim* transactions; it is not an oracle.
#![allow(clippy::pedantic, clippy::arithmetic_side_effects, dead_code, unused_imports)]

use std::sync::Arc;

use astria_core::{
    crypto::SigningKey,
    generated::astria::protocol::genesis::v1::{
        Account as RawAccount,
        AddressPrefixes as RawAddressPrefixes,
        GenesisAppState as RawGenesisAppState,
        IbcParameters as RawIbcParameters,
    },
    primitive::v1::{
        asset::Denom,
        Address,
        RollupId,
    },
    protocol::{
        fees::v1::FeeComponents,
        genesis::v1::{
            GenesisAppState,
            GenesisFees,
        },
        transaction::v1::{
            action::{
                BridgeLock,
                BridgeSudoChange,
                BridgeTransfer,
                BridgeUnlock,
                FeeAssetChange,
                FeeChange,
                IbcRelayerChange,
                IbcSudoChange,
                Ics20Withdrawal,
                InitBridgeAccount,
                RollupDataSubmission,
                SudoAddressChange,
                Transfer,
                ValidatorUpdate,
            },
            Action,
            TransactionBodyBuilder,
        },
    },
    Protobuf as _,
};
use bytes::Bytes;
use cnidarium::{
    StateRead,
    StateWrite,
};
use prost::Message as _;
use rand::{
    seq::SliceRandom as _,
    Rng as _,
    RngCore as _,
};
use rand_chacha::ChaChaRng;
use serde_json::json;
use sha2::Digest as _;

use super::vlog;
use crate::{
    accounts::{
        StateReadExt as _,
        StateWriteExt as _,
    },
    assets::StateWriteExt as _,
    authority::StateReadExt as _,
    bridge::StateReadExt as _,
    checked_transaction::CheckedTransaction,
    fees::{
        StateReadExt as _,
        StateWriteExt as _,
    },
    ibc::StateReadExt as _,
    test_utils::{
        astria_address,
        ASTRIA_COMPAT_PREFIX,
        ASTRIA_PREFIX,
    },
};

pub(super) const CHAIN_ID: &str = "test";

#[derive(Clone)]
pub(super) struct Acct {
    pub(super) name: String,
    pub(super) key: SigningKey,
    pub(super) addr: [u8; 20],
}

impl Acct {
    fn new(name: &str, rng: &mut ChaChaRng) -> Self {
        let key = SigningKey::new(&mut *rng);
        Self { name: name.to_string(), addr: key.address_bytes(), key }
    }

    pub(super) fn address(&self) -> Address {
        astria_address(&self.addr)
    }

    pub(super) fn b64(&self) -> String {
        use base64::prelude::*;
        BASE64_STANDARD.encode(self.addr)
    }
}

#[derive(Clone)]
pub(super) struct Universe {
    pub(super) accts: Vec<Acct>,     // user accounts; some become bridge accounts
    pub(super) sudo: usize,          // indices into accts of the genesis authorities
    pub(super) ibc_sudo: usize,
    pub(super) validators: Vec<(Acct, u32)>,
    pub(super) assets: Vec<Denom>,   // [native, fee-a, fee-b, nonfee-c, foreign, max]
    pub(super) fee_assets: Vec<usize>,
    pub(super) native_balances: Vec<u128>,
    pub(super) fees: Vec<(String, Option<(u128, u128)>)>,
    pub(super) max_tx_bytes: i64,
    pub(super) event_counter: u64,
    pub(super) issued_events: Vec<(usize, String)>,
    pub(super) salt: u64,
    pub(super) profile: String,
    /// activation heights (Aspen, Blackburn), set by the simulator
    pub(super) upgrades: (u64, u64),
}

fn pick_amount(rng: &mut ChaChaRng) -> u128 {
    match rng.gen_range(0..8) {
        0 => 10u128.pow(19),
        1 => 1u128 << 64,
        2 => 1u128 << 100,
        3 => (1u128 << 127) - 1,
        4 => u128::MAX / 16,
        5 => 1_000_000,
        _ => rng.gen_range(1_000_000..10u128.pow(24)),
    }
}

pub(super) const MAX_ASSET: usize = 5;
pub(super) const MAX_HOLDER: usize = 10;

pub(super) const FEE_NAMES: [&str; 18] = [
    "rollup_data_submission", "transfer", "ics20_withdrawal", "init_bridge_account", "bridge_lock", "bridge_unlock",
    "bridge_transfer", "bridge_sudo_change", "ibc_relay", "validator_update", "fee_asset_change", "fee_change",
    "ibc_relayer_change", "sudo_address_change", "ibc_sudo_change", "recover_ibc_client", "currency_pairs_change", "markets_change",
];

fn pick_fee(rng: &mut ChaChaRng, name: &str) -> Option<(u128, u128)> {
    if name != "fee_change" && rng.gen_bool(0.05) {
        return None; // action disabled
    }
    let base = match rng.gen_range(0..6) {
        0 => 0,
        1 => 1,
        2 => rng.gen_range(2..50),
        3 => rng.gen_range(1_000..100_000),
        4 => 1u128 << 40,
        _ => rng.gen_range(1..1000),
    };
    let mult = match rng.gen_range(0..6) {
        0 => 0,
        1 => 1,
        2 => rng.gen_range(2..2000),
        3 => 1u128 << 32,
        _ => rng.gen_range(1..20),
    };
    Some((base, mult))
}

impl Universe {
    pub(super) fn generate(rng: &mut ChaChaRng, _profile: &str) -> Self {
        let mut accts = vec![];
        for i in 0..8 {
            accts.push(Acct::new(&format!("A{i}"), rng));
        }
        accts.push(Acct::new("SUDO", rng));
        accts.push(Acct::new("IBCSUDO", rng));
        accts.push(Acct::new("SPARE1", rng));
        accts.push(Acct::new("SPARE2", rng));
        let sudo = 8;
        let ibc_sudo = 9;
        let nvals = if _profile == "validators" { rng.gen_range(1..=3) } else { rng.gen_range(1..=4) };
        let validators = (0..nvals).map(|i| (Acct::new(&format!("V{i}"), rng), rng.gen_range(1..=100u32))).collect();
        let assets: Vec<Denom> = vec![
            "nria".parse().unwrap(),
            "denom-a".parse().unwrap(),
            "denom-b".parse().unwrap(),
            "denom-c".parse().unwrap(),
            "transfer/channel-0/utia".parse().unwrap(),
            // held by one account only (SPARE1 owns u128::MAX of it) and allowed as fee asset: the only way a fee of
            // u128::MAX can be paid at all
            "denom-max".parse().unwrap(),
        ];
        let native_balances = (0..accts.len()).map(|i| if i >= 10 { 0 } else { pick_amount(rng) }).collect();
        let fees = FEE_NAMES.iter().map(|n| (n.to_string(), pick_fee(rng, n))).collect();
        let max_tx_bytes = match if _profile == "proposals" { rng.gen_range(0..3) } else { rng.gen_range(0..5) } {
            0 => if _profile == "proposals" { rng.gen_range(150..700) } else { rng.gen_range(400..3_000) },
            1 => rng.gen_range(3_000..20_000),
            _ => 1_000_000,
        };
        Self {
            accts,
            sudo,
            ibc_sudo,
            validators,
            assets,
            fee_assets: vec![0, 1, 2, 4],
            native_balances,
            fees,
            max_tx_bytes,
            event_counter: 0,
            issued_events: vec![],
            salt: rng.next_u64(),
            profile: _profile.to_string(),
            upgrades: (0, 0),
        }
    }

    fn fee<T>(&self, name: &str) -> Option<FeeComponents<T>> {
        self.fees.iter().find(|(n, _)| n == name).and_then(|(_, f)| f.map(|(b, m)| FeeComponents::new(b, m)))
    }

    pub(super) fn genesis_app_state(&self) -> GenesisAppState {
        let fees = GenesisFees {
            rollup_data_submission: self.fee("rollup_data_submission"),
            transfer: self.fee("transfer"),
            ics20_withdrawal: self.fee("ics20_withdrawal"),
            init_bridge_account: self.fee("init_bridge_account"),
            bridge_lock: self.fee("bridge_lock"),
            bridge_unlock: self.fee("bridge_unlock"),
            bridge_transfer: self.fee("bridge_transfer"),
            bridge_sudo_change: self.fee("bridge_sudo_change"),
            ibc_relay: self.fee("ibc_relay"),
            validator_update: self.fee("validator_update"),
            fee_asset_change: self.fee("fee_asset_change"),
            fee_change: self.fee("fee_change").unwrap_or_else(|| FeeComponents::new(0, 0)),
            ibc_relayer_change: self.fee("ibc_relayer_change"),
            sudo_address_change: self.fee("sudo_address_change"),
            ibc_sudo_change: self.fee("ibc_sudo_change"),
            recover_ibc_client: self.fee("recover_ibc_client"),
            currency_pairs_change: self.fee("currency_pairs_change"),
            markets_change: self.fee("markets_change"),
        };
        let raw = RawGenesisAppState {
            chain_id: CHAIN_ID.to_string(),
            address_prefixes: Some(RawAddressPrefixes { base: ASTRIA_PREFIX.into(), ibc_compat: ASTRIA_COMPAT_PREFIX.into() }),
            accounts: self
                .accts
                .iter()
                .zip(&self.native_balances)
                .filter(|(_, b)| **b > 0)
                .map(|(a, b)| RawAccount { address: Some(a.address().into_raw()), balance: Some((*b).into()) })
                .collect(),
            authority_sudo_address: Some(self.accts[self.sudo].address().into_raw()),
            ibc_sudo_address: Some(self.accts[self.ibc_sudo].address().into_raw()),
            ibc_relayer_addresses: vec![self.accts[self.ibc_sudo].address().into_raw()],
            native_asset_base_denomination: "nria".to_string(),
            ibc_parameters: Some(RawIbcParameters {
                ibc_enabled: true,
                inbound_ics20_transfers_enabled: true,
                outbound_ics20_transfers_enabled: true,
            }),
            allowed_fee_assets: vec!["nria".to_string()],
            fees: Some(fees.to_raw()),
        };
        GenesisAppState::try_from_raw(raw).unwrap()
    }

    pub(super) fn genesis_validators(&self) -> Vec<ValidatorUpdate> {
        self.validators
            .iter()
            .map(|(a, p)| ValidatorUpdate { power: *p, verification_key: a.key.verification_key(), name: a.name.parse().unwrap() })
            .collect()
    }

    pub(super) fn validator_address(&self, i: usize) -> tendermint::account::Id {
        let pk = tendermint::PublicKey::from_raw_ed25519(self.validators[i].0.key.verification_key().as_ref()).unwrap();
        tendermint::account::Id::from(pk)
    }

    /// Deterministic post-genesis setup every node applies identically.
    pub(super) async fn extra_setup<S: StateWrite>(&self, state: &mut S) {
        super::ibc::install(state).await;
        for (k, asset) in self.assets.iter().enumerate() {
            if k == 0 {
                continue;
            }
            if let Denom::TracePrefixed(t) = asset {
                state.put_ibc_asset(t.clone()).unwrap();
            }
            if self.fee_assets.contains(&k) {
                state.put_allowed_fee_asset(asset).unwrap();
            }
            if k == MAX_ASSET {
                state.put_allowed_fee_asset(asset).unwrap();
                state.put_account_balance(&self.accts[MAX_HOLDER].addr, asset, u128::MAX).unwrap();
                continue;
            }
            for (i, a) in self.accts.iter().enumerate() {
                if i < 10 && (i + k) % 3 != 0 {
                    let amount = 10u128.pow(12) * (1 + ((i * 7 + k * 3) % 11) as u128) + if (i + k) % 5 == 0 { u128::MAX / 32 } else { 0 };
                    state.put_account_balance(&a.addr, asset, amount).unwrap();
                }
            }
        }
    }

    pub(super) fn to_json(&self) -> serde_json::Value {
        json!({
            "accounts": self.accts.iter().map(|a| json!({"name": a.name, "addr": a.b64()})).collect::<Vec<_>>(),
            "sudo": self.accts[self.sudo].b64(), "ibc_sudo": self.accts[self.ibc_sudo].b64(),
            "validators": self.validators.iter().map(|(a, p)| json!({"name": a.name, "vk": vlog::hex(a.key.verification_key().as_ref()), "addr": a.b64(), "power": p})).collect::<Vec<_>>(),
            "assets": self.assets.iter().map(|d| json!({"denom": d.to_string(), "ibc": d.to_ibc_prefixed().to_string()})).collect::<Vec<_>>(),
            "fee_assets": self.fee_assets, "native_balances": self.native_balances.iter().map(|b| b.to_string()).collect::<Vec<_>>(),
            "fees": self.fees.iter().map(|(n, f)| json!([n, f.map(|(b, m)| [b.to_string(), m.to_string()])])).collect::<Vec<_>>(),
            "max_tx_bytes": self.max_tx_bytes,
        })
    }

    pub(super) fn find_by_addr(&self, addr: &[u8; 20]) -> Option<usize> {
        self.accts.iter().position(|a| &a.addr == addr)
    }

    fn next_event_id(&mut self, bridge: usize) -> String {
        self.event_counter += 1;
        let id = format!("w-{}-{}", self.accts[bridge].name, self.event_counter);
        self.issued_events.push((bridge, id.clone()));
        id
    }

    /// An event id that was issued for this bridge before (probably consumed already).
    fn old_event_id(&self, rng: &mut ChaChaRng, bridge: usize) -> Option<String> {
        let c: Vec<&String> = self.issued_events.iter().filter(|(b, _)| *b == bridge).map(|(_, e)| e).collect();
        if c.is_empty() { None } else { Some(c[rng.gen_range(0..c.len())].clone()) }
    }
}

#[derive(Clone)]
pub(super) struct BuiltTx {
    pub(super) id: String,
    pub(super) bytes: Bytes,
    pub(super) signer: usize,
    pub(super) nonce: u32,
    pub(super) actions: Vec<serde_json::Value>,
    pub(super) intent: String,
}

impl BuiltTx {
    pub(super) fn to_json(&self, hist: u64, height: u64) -> serde_json::Value {
        json!({"kind": "tx_built", "hist": hist, "height": height, "id": self.id, "signer": self.signer, "nonce": self.nonce,
            "actions": self.actions, "intent": self.intent, "len": self.bytes.len()})
    }
}

pub(super) fn action_json(a: &Action) -> serde_json::Value {
    use base64::prelude::*;
    let b = |addr: &Address| BASE64_STANDARD.encode(addr.bytes());
    match a {
        Action::Transfer(t) => json!({"kind": "transfer", "to": b(&t.to), "amount": t.amount.to_string(), "asset": t.asset.to_ibc_prefixed().to_string(), "fee_asset": t.fee_asset.to_ibc_prefixed().to_string()}),
        Action::RollupDataSubmission(r) => json!({"kind": "rollup_data_submission", "rollup": r.rollup_id.to_string(), "len": r.data.len(), "sha": vlog::hex(&sha2::Sha256::digest(&r.data)[..10]), "data": vlog::hex(&r.data[..r.data.len().min(24)]), "fee_asset": r.fee_asset.to_ibc_prefixed().to_string()}),
        Action::InitBridgeAccount(i) => json!({"kind": "init_bridge_account", "rollup": i.rollup_id.to_string(), "asset": i.asset.to_ibc_prefixed().to_string(), "fee_asset": i.fee_asset.to_ibc_prefixed().to_string(),
            "sudo": i.sudo_address.as_ref().map(b), "withdrawer": i.withdrawer_address.as_ref().map(b)}),
        Action::BridgeLock(l) => json!({"kind": "bridge_lock", "to": b(&l.to), "amount": l.amount.to_string(), "asset": l.asset.to_ibc_prefixed().to_string(), "asset_display_len": l.asset.display_len(),
            "fee_asset": l.fee_asset.to_ibc_prefixed().to_string(), "dest": l.destination_chain_address}),
        Action::BridgeUnlock(u) => json!({"kind": "bridge_unlock", "to": b(&u.to), "amount": u.amount.to_string(), "fee_asset": u.fee_asset.to_ibc_prefixed().to_string(), "bridge": b(&u.bridge_address),
            "event_id": u.rollup_withdrawal_event_id, "rollup_block": u.rollup_block_number}),
        Action::BridgeTransfer(t) => json!({"kind": "bridge_transfer", "to": b(&t.to), "amount": t.amount.to_string(), "fee_asset": t.fee_asset.to_ibc_prefixed().to_string(), "bridge": b(&t.bridge_address),
            "event_id": t.rollup_withdrawal_event_id, "dest": t.destination_chain_address}),
        Action::BridgeSudoChange(c) => json!({"kind": "bridge_sudo_change", "bridge": b(&c.bridge_address), "new_sudo": c.new_sudo_address.as_ref().map(b), "new_withdrawer": c.new_withdrawer_address.as_ref().map(b),
            "disable_deposits": c.disable_deposits, "fee_asset": c.fee_asset.to_ibc_prefixed().to_string()}),
        Action::FeeChange(f) => json!({"kind": "fee_change", "which": format!("{f:?}").split('(').next().unwrap_or("").to_string(), "debug": format!("{f:?}")}),
        Action::FeeAssetChange(f) => match f {
            FeeAssetChange::Addition(d) => json!({"kind": "fee_asset_change", "op": "add", "asset": d.to_ibc_prefixed().to_string()}),
            FeeAssetChange::Removal(d) => json!({"kind": "fee_asset_change", "op": "remove", "asset": d.to_ibc_prefixed().to_string()}),
        },
        Action::SudoAddressChange(s) => json!({"kind": "sudo_address_change", "new": b(&s.new_address)}),
        Action::IbcSudoChange(s) => json!({"kind": "ibc_sudo_change", "new": b(&s.new_address)}),
        Action::IbcRelayerChange(c) => match c {
            IbcRelayerChange::Addition(a) => json!({"kind": "ibc_relayer_change", "op": "add", "addr": b(a)}),
            IbcRelayerChange::Removal(a) => json!({"kind": "ibc_relayer_change", "op": "remove", "addr": b(a)}),
        },
        Action::ValidatorUpdate(v) => json!({"kind": "validator_update", "vk": vlog::hex(v.verification_key.as_ref()), "power": v.power, "name": v.name.to_string()}),
        Action::Ics20Withdrawal(w) => json!({"kind": "ics20_withdrawal", "amount": w.amount.to_string(), "denom": w.denom.to_string(), "denom_ibc": w.denom.to_ibc_prefixed().to_string(),
            "channel": w.source_channel.to_string(), "return": b(&w.return_address), "return_str": w.return_address.to_string(), "compat": w.use_compat_address, "bridge": w.bridge_address.as_ref().map(b), "memo": w.memo, "fee_asset": w.fee_asset.to_ibc_prefixed().to_string()}),
        Action::Ibc(_) => json!({"kind": "ibc_relay", "note": "UpgradeClient for an unknown client: fails at execution"}),
        other => json!({"kind": "other", "debug": format!("{other:?}").chars().take(80).collect::<String>()}),
    }
}

pub(super) fn build_tx(signer_idx: usize, key: &SigningKey, nonce: u32, actions: Vec<Action>, intent: &str) -> Option<BuiltTx> {
    let ajson = actions.iter().map(action_json).collect();
    let body = TransactionBodyBuilder::new().nonce(nonce).chain_id(CHAIN_ID.to_string()).actions(actions).try_build().ok()?;
    let tx = body.sign(key);
    let bytes = Bytes::from(tx.into_raw().encode_to_vec());
    Some(BuiltTx {
        id: vlog::hex(&sha2::Sha256::digest(&bytes)),
        bytes,
        signer: signer_idx,
        nonce,
        actions: ajson,
        intent: intent.to_string(),
    })
}

async fn balance<S: StateRead>(state: &S, addr: &[u8; 20], asset: &Denom) -> u128 {
    state.get_account_balance(addr, asset).await.unwrap_or(0)
}

fn amount_around(rng: &mut ChaChaRng, bal: u128) -> u128 {
    match rng.gen_range(0..12) {
        0 => 0,
        1 => 1,
        2 => bal,
        3 => bal.saturating_sub(1),
        4 => bal.saturating_add(1),
        5 => u128::MAX,
        6 => u128::MAX - rng.gen_range(0..3),
        7 => 1u128 << 127,
        8 => bal / 2,
        _ => {
            if bal < 4 {
                1
            } else {
                rng.gen_range(1..=(bal / 4).max(1)).min(10u128.pow(9))
            }
        }
    }
}

async fn pick_fee_asset<S: StateRead>(u: &Universe, rng: &mut ChaChaRng, state: &S, hostile: bool) -> Denom {
    if hostile && rng.gen_bool(0.5) {
        return u.assets[3].clone(); // not a fee asset
    }
    let mut ok = vec![];
    for k in &u.fee_assets {
        if state.is_allowed_fee_asset(&u.assets[*k]).await.unwrap_or(false) {
            ok.push(*k);
        }
    }
    if ok.is_empty() {
        return u.assets[0].clone();
    }
    let k = if rng.gen_bool(0.6) { ok[0] } else { *ok.choose(rng).unwrap() };
    let d = u.assets[k].clone();
    if rng.gen_bool(0.2) {
        // ibc-prefixed spelling of the same asset
        Denom::from(d.to_ibc_prefixed())
    } else {
        d
    }
}

async fn bridges<S: StateRead>(u: &Universe, state: &S) -> Vec<usize> {
    let mut v = vec![];
    for (i, a) in u.accts.iter().enumerate() {
        if state.is_a_bridge_account(&a.addr).await.unwrap_or(false) {
            v.push(i);
        }
    }
    v
}

async fn key_for<S: StateRead>(u: &Universe, state: &S, which: &str, bridge: Option<usize>) -> Option<usize> {
    let addr: [u8; 20] = match which {
        "sudo" => state.get_sudo_address().await.ok()?,
        "ibc_sudo" => state.get_ibc_sudo_address().await.ok()?,
        "bridge_sudo" => state.get_bridge_account_sudo_address(&u.accts[bridge?].addr).await.ok()??,
        "bridge_withdrawer" => state.get_bridge_account_withdrawer_address(&u.accts[bridge?].addr).await.ok()??,
        _ => return None,
    };
    u.find_by_addr(&addr)
}

/// One action of a given kind, aimed at `state`. Returns (signer account index, action, intent).
async fn gen_action<S: StateRead>(
    u: &mut Universe,
    rng: &mut ChaChaRng,
    state: &S,
    kind: &str,
    signer_hint: Option<usize>,
    hostile: bool,
) -> Option<(usize, Action, String)> {
    let n_users = 8;
    let any_user = |rng: &mut ChaChaRng| rng.gen_range(0..n_users);
    let bridge_list = bridges(u, state).await;
    match kind {
        "transfer" => {
            let from = signer_hint.unwrap_or_else(|| any_user(rng));
            let to = if rng.gen_bool(0.12) { from } else { rng.gen_range(0..u.accts.len()) };
            let asset = u.assets[rng.gen_range(0..u.assets.len())].clone();
            let bal = balance(state, &u.accts[from].addr, &asset).await;
            let amount = if hostile { amount_around(rng, bal) } else { amount_around(rng, bal).min(bal / 3) };
            let bad_fee = hostile && rng.gen_bool(0.2);
            let fee_asset = pick_fee_asset(u, rng, state, bad_fee).await;
            let asset = if rng.gen_bool(0.15) { Denom::from(asset.to_ibc_prefixed()) } else { asset };
            Some((from, Action::Transfer(Transfer { to: u.accts[to].address(), amount, asset, fee_asset }), "transfer".into()))
        }
        "rollup_data" => {
            let from = signer_hint.unwrap_or_else(|| any_user(rng));
            let len = match rng.gen_range(0..8) {
                0 => 0,
                1 => 1,
                2 => rng.gen_range(200..3000),
                3 | 4 if u.profile == "proposals" || u.profile == "rollups" => [rng.gen_range(20_000..120_000), rng.gen_range(3_000..20_000), 250_000][rng.gen_range(0..3)],
                _ => rng.gen_range(1..64),
            };
            let mut data = vec![0u8; len];
            rng.fill_bytes(&mut data);
            if u.profile == "rollups" && rng.gen_bool(0.2) {
                data = vec![0x42; 3]; // duplicate payloads across transactions and rollups
            }
            let rollup = RollupId::new([rng.gen_range(1..=if u.profile == "rollups" { 8u8 } else { 4u8 }); 32]);
            let bad_fee = hostile && rng.gen_bool(0.2);
            let fee_asset = pick_fee_asset(u, rng, state, bad_fee).await;
            Some((from, Action::RollupDataSubmission(RollupDataSubmission { rollup_id: rollup, data: data.into(), fee_asset }), "rollup_data".into()))
        }
        "init_bridge" => {
            // an account that is not yet a bridge
            let cands: Vec<usize> = (0..n_users).filter(|i| !bridge_list.contains(i)).collect();
            if cands.len() <= 4 && !hostile {
                return None; // keep some plain users
            }
            let mut intent = "init_bridge".to_string();
            let mut from = signer_hint.unwrap_or_else(|| *cands.choose(rng).unwrap_or(&0));
            let mut disabled = vec![];
            for b in &bridge_list {
                if state.is_bridge_account_disabled(&u.accts[*b].addr).await.unwrap_or(false) {
                    disabled.push(*b);
                }
            }
            if signer_hint.is_none() && !bridge_list.is_empty() && ((hostile && rng.gen_bool(0.6)) || (!disabled.is_empty() && rng.gen_bool(0.5))) {
                // an account that already is a bridge (preferably one whose deposits its sudo has disabled) signs a second
                // InitBridgeAccount with its own key: that would replace sudo / withdrawer / deposit switch without the bridge sudo
                from = *disabled.choose(rng).or_else(|| bridge_list.choose(rng)).unwrap();
                intent = format!("init_bridge:attack_reinit_existing_bridge{}", if disabled.contains(&from) { "_disabled" } else { "" });
            }
            let asset = u.assets[[0usize, 1, 4, 3][rng.gen_range(0..4)]].clone();
            let sudo = if rng.gen_bool(0.7) { Some(u.accts[any_user(rng)].address()) } else { None };
            let withdrawer = if rng.gen_bool(0.7) { Some(u.accts[any_user(rng)].address()) } else { None };
            let fee_asset = pick_fee_asset(u, rng, state, false).await;
            Some((from, Action::InitBridgeAccount(InitBridgeAccount {
                rollup_id: RollupId::new([rng.gen_range(1..=4u8); 32]), asset, fee_asset, sudo_address: sudo, withdrawer_address: withdrawer,
            }), intent))
        }
        "bridge_lock" => {
            let b = *bridge_list.choose(rng)?;
            let from = signer_hint.unwrap_or_else(|| any_user(rng));
            let basset = state.get_bridge_account_ibc_asset(&u.accts[b].addr).await.ok()?;
            let asset = if hostile && rng.gen_bool(0.3) {
                u.assets[rng.gen_range(0..u.assets.len())].clone()
            } else {
                u.assets.iter().find(|d| d.to_ibc_prefixed() == basset)?.clone()
            };
            let bal = balance(state, &u.accts[from].addr, &asset).await;
            let amount = if hostile { amount_around(rng, bal) } else { amount_around(rng, bal).min(bal / 3) };
            let fee_asset = pick_fee_asset(u, rng, state, false).await;
            let dest = "r".repeat(rng.gen_range(1..40));
            Some((from, Action::BridgeLock(BridgeLock { to: u.accts[b].address(), amount, asset, fee_asset, destination_chain_address: dest }), "bridge_lock".into()))
        }
        "bridge_unlock" | "bridge_transfer" => {
            let b = *bridge_list.choose(rng)?;
            let w = key_for(u, state, "bridge_withdrawer", Some(b)).await;
            let (from, intent) = if hostile && rng.gen_bool(0.6) {
                // somebody who is not the withdrawer: the bridge itself, its sudo, a random user
                let c = match rng.gen_range(0..3) {
                    0 => b,
                    1 => key_for(u, state, "bridge_sudo", Some(b)).await.unwrap_or(b),
                    _ => any_user(rng),
                };
                (c, format!("{kind}:attack_not_withdrawer"))
            } else {
                (w?, kind.to_string())
            };
            let basset = state.get_bridge_account_ibc_asset(&u.accts[b].addr).await.ok()?;
            let bal = state.get_account_balance(&u.accts[b].addr, &basset).await.unwrap_or(0);
            let amount = if hostile { amount_around(rng, bal) } else { amount_around(rng, bal).min(bal / 2).max(1) };
            let mut intent = intent;
            let event_id = match (rng.gen_bool(0.4), u.old_event_id(rng, b)) {
                (true, Some(old)) => {
                    intent = format!("{intent}:reuse_event_id");
                    old
                }
                _ => u.next_event_id(b),
            };
            let fee_asset = pick_fee_asset(u, rng, state, false).await;
            if kind == "bridge_unlock" {
                let to = rng.gen_range(0..u.accts.len());
                Some((from, Action::BridgeUnlock(BridgeUnlock {
                    to: u.accts[to].address(), amount, fee_asset, bridge_address: u.accts[b].address(), memo: "m".into(),
                    rollup_block_number: rng.gen_range(1..1000), rollup_withdrawal_event_id: event_id,
                }), intent))
            } else {
                // destination must be another bridge (same asset normally)
                // ... or, sometimes, the source bridge itself (nothing forbids it: same asset, same rollup): debit and credit then alias
                // one balance, and the published deposit must still be backed
                let to = if rng.gen_bool(0.2) || bridge_list.len() == 1 {
                    intent = format!("{intent}:to_self");
                    b
                } else {
                    *bridge_list.iter().filter(|x| **x != b).collect::<Vec<_>>().choose(rng).copied()?
                };
                Some((from, Action::BridgeTransfer(BridgeTransfer {
                    to: u.accts[to].address(), amount, fee_asset, destination_chain_address: "rollup-dest".into(), bridge_address: u.accts[b].address(),
                    rollup_block_number: rng.gen_range(1..1000), rollup_withdrawal_event_id: event_id,
                }), intent))
            }
        }
        "bridge_sudo_change" => {
            let b = *bridge_list.choose(rng)?;
            let s = key_for(u, state, "bridge_sudo", Some(b)).await;
            let (from, intent) = if hostile && rng.gen_bool(0.6) {
                let c = match rng.gen_range(0..3) {
                    0 => b,
                    1 => key_for(u, state, "bridge_withdrawer", Some(b)).await.unwrap_or(b),
                    _ => any_user(rng),
                };
                (c, "bridge_sudo_change:attack_not_sudo".to_string())
            } else {
                (s?, "bridge_sudo_change".to_string())
            };
            let fee_asset = pick_fee_asset(u, rng, state, false).await;
            Some((from, Action::BridgeSudoChange(BridgeSudoChange {
                bridge_address: u.accts[b].address(),
                new_sudo_address: if rng.gen_bool(0.5) { Some(u.accts[any_user(rng)].address()) } else { None },
                new_withdrawer_address: if rng.gen_bool(0.5) { Some(u.accts[any_user(rng)].address()) } else { None },
                fee_asset,
                disable_deposits: rng.gen_bool(0.45),
            }), intent))
        }
        "fee_change" | "fee_asset_change" | "sudo_change" | "validator_update" => {
            let s = key_for(u, state, "sudo", None).await;
            let (from, intent) = if hostile && rng.gen_bool(0.6) {
                let c = match rng.gen_range(0..3) {
                    0 => u.sudo, // the genesis sudo (may be a former authority by now)
                    1 => u.ibc_sudo,
                    _ => any_user(rng),
                };
                (c, format!("{kind}:attack_not_sudo"))
            } else {
                (s?, kind.to_string())
            };
            let action = match kind {
                "fee_change" => {
                    let (b, m) = pick_fee(rng, "fee_change").unwrap();
                    let (b, m) = if hostile && rng.gen_bool(0.2) { (rng.gen_range(0..10), u128::MAX) } else { (b, m) };
                    Action::FeeChange(match rng.gen_range(0..9) {
                        0 => FeeChange::Transfer(FeeComponents::new(b, m)),
                        1 => FeeChange::RollupDataSubmission(FeeComponents::new(b, m)),
                        2 => FeeChange::BridgeLock(FeeComponents::new(b, m)),
                        3 => FeeChange::BridgeUnlock(FeeComponents::new(b, m)),
                        4 => FeeChange::BridgeTransfer(FeeComponents::new(b, m)),
                        5 => FeeChange::Ics20Withdrawal(FeeComponents::new(b, m)),
                        6 => FeeChange::InitBridgeAccount(FeeComponents::new(b, m)),
                        7 => FeeChange::BridgeSudoChange(FeeComponents::new(b, m)),
                        _ => FeeChange::FeeChange(FeeComponents::new(b, m)),
                    })
                }
                "fee_asset_change" => {
                    let k = [1usize, 2, 3, 4][rng.gen_range(0..4)];
                    if state.is_allowed_fee_asset(&u.assets[k]).await.unwrap_or(false) {
                        Action::FeeAssetChange(FeeAssetChange::Removal(u.assets[k].clone()))
                    } else {
                        Action::FeeAssetChange(FeeAssetChange::Addition(u.assets[k].clone()))
                    }
                }
                "sudo_change" => {
                    let to = [u.sudo, 10, 11, any_user(rng)][rng.gen_range(0..4)];
                    Action::SudoAddressChange(SudoAddressChange { new_address: u.accts[to].address() })
                }
                _ => {
                    let (v, _) = &u.validators[rng.gen_range(0..u.validators.len())];
                    let vprof = u.profile == "validators";
                    let (vk, name) = if rng.gen_bool(if vprof { 0.75 } else { 0.6 }) {
                        (v.key.verification_key(), v.name.clone())
                    } else {
                        let k = rng.gen_range(10..12);
                        (u.accts[k].key.verification_key(), u.accts[k].name.clone())
                    };
                    let power = if rng.gen_bool(if vprof { 0.5 } else { 0.35 }) { 0 } else { rng.gen_range(1..100) };
                    Action::ValidatorUpdate(ValidatorUpdate { power, verification_key: vk, name: name.parse().unwrap() })
                }
            };
            Some((from, action, intent))
        }
        "ibc_sudo_change" | "ibc_relayer_change" => {
            // the IBC sudo address is set by the chain sudo; the relayer set by the IBC sudo
            let s = key_for(u, state, if kind == "ibc_sudo_change" { "sudo" } else { "ibc_sudo" }, None).await;
            let (from, intent) = if hostile && rng.gen_bool(0.6) {
                let c = match rng.gen_range(0..3) {
                    0 => u.ibc_sudo,
                    1 => u.sudo,
                    _ => any_user(rng),
                };
                (c, format!("{kind}:attack_{}", if kind == "ibc_sudo_change" { "not_sudo" } else { "not_ibc_sudo" }))
            } else {
                (s?, kind.to_string())
            };
            let action = if kind == "ibc_sudo_change" {
                let to = [u.ibc_sudo, 10, 11][rng.gen_range(0..3)];
                Action::IbcSudoChange(IbcSudoChange { new_address: u.accts[to].address() })
            } else {
                let who = [u.ibc_sudo, 10, 11, 3][rng.gen_range(0..4)];
                if state.is_ibc_relayer(&u.accts[who].addr).await.unwrap_or(false) {
                    Action::IbcRelayerChange(IbcRelayerChange::Removal(u.accts[who].address()))
                } else {
                    Action::IbcRelayerChange(IbcRelayerChange::Addition(u.accts[who].address()))
                }
            };
            Some((from, action, intent))
        }
        "ics20_withdrawal" => {
            let (local, remote) = super::ibc::CHANNELS[rng.gen_range(0..super::ibc::CHANNELS.len())];
            // from a bridge (signed by its withdrawer, memo required) or from a plain account
            let from_bridge = (!bridge_list.is_empty() && rng.gen_bool(0.3)) || (hostile && rng.gen_bool(0.3));
            let (from, bridge, memo, src_addr) = if from_bridge {
                // hostile: name an ordinary (non-bridge) funded account as the "bridge" to withdraw from
                let victim_is_plain_account = hostile && (bridge_list.is_empty() || rng.gen_bool(0.5));
                let b = if victim_is_plain_account { any_user(rng) } else { *bridge_list.choose(rng).unwrap_or(&any_user(rng)) };
                let w = if victim_is_plain_account || (hostile && rng.gen_bool(0.4)) {
                    // somebody who is not the withdrawer (for a plain account there is none)
                    (b + 1 + rng.gen_range(0..6)) % 8
                } else {
                    key_for(u, state, "bridge_withdrawer", Some(b)).await?
                };
                let ev = match (rng.gen_bool(0.2), u.old_event_id(rng, b)) {
                    (true, Some(old)) => old,
                    _ => u.next_event_id(b),
                };
                let memo = serde_json::to_string(&astria_core::protocol::memos::v1::Ics20WithdrawalFromRollup {
                    rollup_block_number: rng.gen_range(1..1000),
                    rollup_withdrawal_event_id: ev,
                    rollup_return_address: "0xrollupreturn".into(),
                    memo: "m".into(),
                })
                .unwrap();
                (w, Some(u.accts[b].address()), memo, u.accts[b].addr)
            } else {
                let f = signer_hint.unwrap_or_else(|| any_user(rng));
                (f, None, String::new(), u.accts[f].addr)
            };
            // what: native / sequencer-origin denom-a / foreign voucher of this or the other channel, in trace or ibc/ spelling
            let base: Denom = if let Some(baddr) = bridge.as_ref() {
                match state.get_bridge_account_ibc_asset(&baddr.bytes()).await {
                    Ok(basset) => u.assets.iter().find(|d| d.to_ibc_prefixed() == basset)?.clone(),
                    Err(_) => u.assets[0].clone(), // not a bridge at all
                }
            } else {
                u.assets[[0usize, 0, 1, 4, 4][rng.gen_range(0..5)]].clone()
            };
            let denom = if rng.gen_bool(0.25) { Denom::from(base.to_ibc_prefixed()) } else { base.clone() };
            let bal = balance(state, &src_addr, &base).await;
            let amount = if hostile { amount_around(rng, bal).max(1) } else { amount_around(rng, bal).min(bal / 3).max(1) };
            let fee_asset = pick_fee_asset(u, rng, state, false).await;
            let _ = remote;
            Some((from, Action::Ics20Withdrawal(Ics20Withdrawal {
                amount,
                denom,
                destination_chain_address: "counterparty1receiver".into(),
                return_address: if bridge.is_some() { bridge.clone().unwrap() } else { u.accts[from].address() },
                timeout_height: ibc_types::core::client::Height::new(2, 1_000_000).unwrap(),
                timeout_time: 4_000_000_000_000_000_000,
                source_channel: ibc_types::core::channel::ChannelId::new(local),
                fee_asset,
                memo,
                bridge_address: bridge,
                use_compat_address: rng.gen_bool(0.2),
            }), if from_bridge && hostile { "ics20_withdrawal:attack_not_withdrawer".into() } else if from_bridge { "ics20_withdrawal:from_bridge".into() } else { "ics20_withdrawal".into() }))
        }
        _ => None,
    }
}

const KINDS: [(&str, u32); 14] = [
    ("ics20_withdrawal", 3),
    ("transfer", 30),
    ("rollup_data", 20),
    ("init_bridge", 6),
    ("bridge_lock", 12),
    ("bridge_unlock", 8),
    ("bridge_transfer", 5),
    ("bridge_sudo_change", 4),
    ("fee_change", 4),
    ("fee_asset_change", 3),
    ("sudo_change", 2),
    ("validator_update", 4),
    ("ibc_sudo_change", 1),
    ("ibc_relayer_change", 2),
];

fn pick_kind(rng: &mut ChaChaRng, profile: &str) -> &'static str {
    let boost = |k: &str| -> u32 {
        match (profile, k) {
            ("bridge", "bridge_lock" | "bridge_unlock" | "bridge_transfer" | "init_bridge" | "bridge_sudo_change") => 4,
            ("authz", "ics20_withdrawal") => 5,
            ("authz", "fee_change" | "fee_asset_change" | "sudo_change" | "validator_update" | "ibc_sudo_change" | "ibc_relayer_change" | "bridge_sudo_change" | "bridge_unlock") => 4,
            ("validators", "validator_update") => 12,
            ("ledger", "transfer" | "fee_change" | "fee_asset_change") => 2,
            ("ibc", "ics20_withdrawal") => 12,
            ("proposals", "rollup_data") => 4,
            ("rollups", "rollup_data") => 5,
            ("rollups", "bridge_lock" | "init_bridge") => 3,
            ("proposals", "fee_change" | "validator_update" | "sudo_change") => 3,
            ("ibc", "init_bridge" | "bridge_lock") => 2,
            _ => 1,
        }
    };
    let total: u32 = KINDS.iter().map(|(k, w)| w * boost(k)).sum();
    let mut x = rng.gen_range(0..total);
    for (k, w) in KINDS {
        let w = w * boost(k);
        if x < w {
            return k;
        }
        x -= w;
    }
    "transfer"
}

fn is_general_bundleable(kind: &str) -> bool {
    matches!(kind, "transfer" | "rollup_data" | "bridge_lock" | "bridge_unlock" | "bridge_transfer" | "validator_update")
}

/// Transactions for one height, aimed at the committed `state`.
pub(super) async fn generate_block_txs<S: StateRead>(
    u: &mut Universe,
    rng: &mut ChaChaRng,
    state: &S,
    committed: &[BuiltTx],
    height: u64,
    profile: &str,
) -> Vec<BuiltTx> {
    let mut out = vec![];
    if profile == "empty" {
        return out;
    }
    let mut next_nonce: std::collections::HashMap<usize, u32> = std::collections::HashMap::new();
    let ntx = if profile == "proposals" { rng.gen_range(2..=16) } else { rng.gen_range(0..=10) };
    for _ in 0..ntx {
        let hostile = rng.gen_bool(0.3);
        let kind = pick_kind(rng, profile);
        let Some((signer, action, mut intent)) = gen_action(u, rng, state, kind, None, hostile).await else {
            continue;
        };
        let mut actions = vec![action];
        // bundles of bundleable general actions signed by the same account
        if is_general_bundleable(kind) && rng.gen_bool(0.35) {
            for _ in 0..rng.gen_range(1..=4) {
                let k2 = ["transfer", "rollup_data", "bridge_lock", "transfer"][rng.gen_range(0..4)];
                if let Some((_, a2, _)) = gen_action(u, rng, state, k2, Some(signer), hostile).await {
                    actions.push(a2);
                }
            }
            intent = format!("bundle:{intent}");
        }
        let base = match next_nonce.get(&signer) {
            Some(n) => *n,
            None => state.get_account_nonce(&u.accts[signer].addr).await.unwrap_or(0),
        };
        let nonce = if hostile {
            match rng.gen_range(0..8) {
                0 => base + 1 + rng.gen_range(0..3), // gap
                1 => base.saturating_sub(1),         // stale
                _ => base,
            }
        } else {
            base
        };
        if hostile {
            intent = format!("{intent}:hostile");
        }
        if let Some(b) = build_tx(signer, &u.accts[signer].key, nonce, actions, &intent) {
            if nonce == base {
                next_nonce.insert(signer, base + 1);
            }
            out.push(b);
        }
    }
    // validators profile: try to remove every validator within one block (one bundle, or one transaction each)
    if profile == "validators" && rng.gen_bool(0.25) {
        if let Some(s) = key_for(u, state, "sudo", None).await {
            let removals: Vec<Action> = u
                .validators
                .iter()
                .map(|(a, _)| Action::ValidatorUpdate(ValidatorUpdate { power: 0, verification_key: a.key.verification_key(), name: a.name.parse().unwrap() }))
                .collect();
            let base = match next_nonce.get(&s) {
                Some(n) => *n,
                None => state.get_account_nonce(&u.accts[s].addr).await.unwrap_or(0),
            };
            if rng.gen_bool(0.5) {
                if let Some(b) = build_tx(s, &u.accts[s].key, base, removals, "remove_all_validators:bundle") {
                    next_nonce.insert(s, base + 1);
                    out.push(b);
                }
            } else {
                for (k, a) in removals.into_iter().enumerate() {
                    if let Some(b) = build_tx(s, &u.accts[s].key, base + k as u32, vec![a], "remove_all_validators:separate") {
                        next_nonce.insert(s, base + k as u32 + 1);
                        out.push(b);
                    }
                }
            }
        }
    }
    // oracle currency pairs removed and re-added while signed vote extensions carry prices for them
    if matches!(profile, "paths" | "mixed") && rng.gen_bool(0.3) {
        use astria_core::{
            oracles::price_feed::types::v2::CurrencyPair,
            protocol::transaction::v1::action::CurrencyPairsChange,
        };
        use futures::TryStreamExt as _;

        use crate::oracles::price_feed::oracle::state_ext::StateReadExt as _;
        if let Some(s) = key_for(u, state, "sudo", None).await {
            let existing: Vec<CurrencyPair> = match state.currency_pairs_with_ids().try_collect::<Vec<_>>().await {
                Ok(v) => v.into_iter().map(|p| p.currency_pair).collect(),
                Err(_) => vec![],
            };
            let fresh: Vec<CurrencyPair> = ["AAA/USD", "BBB/USD", "BTC/USD", "ETH/USD", "TIA/USD"].iter().filter_map(|p| p.parse().ok()).filter(|p| !existing.contains(p)).collect();
            let action = if !existing.is_empty() && (fresh.is_empty() || rng.gen_bool(0.6)) {
                let k = rng.gen_range(0..existing.len());
                let mut set = indexmap::IndexSet::new();
                set.insert(existing[k].clone());
                if existing.len() > 1 && rng.gen_bool(0.3) {
                    set.insert(existing[(k + 1) % existing.len()].clone());
                }
                Some((Action::CurrencyPairsChange(CurrencyPairsChange::Removal(set)), "currency_pairs:remove"))
            } else if !fresh.is_empty() {
                let mut set = indexmap::IndexSet::new();
                set.insert(fresh[rng.gen_range(0..fresh.len())].clone());
                Some((Action::CurrencyPairsChange(CurrencyPairsChange::Addition(set)), "currency_pairs:add"))
            } else {
                None
            };
            if let Some((a, intent)) = action {
                let base = match next_nonce.get(&s) {
                    Some(n) => *n,
                    None => state.get_account_nonce(&u.accts[s].addr).await.unwrap_or(0),
                };
                if let Some(t) = build_tx(s, &u.accts[s].key, base, vec![a], intent) {
                    next_nonce.insert(s, base + 1);
                    out.push(t);
                }
            }
        }
    }
    // a fee schedule under which base + multiplier x size exceeds u128::MAX, and the one account that could pay u128::MAX
    if matches!(profile, "ledger" | "mixed") && rng.gen_bool(0.15) {
        let max_asset = u.assets[MAX_ASSET].clone();
        let bal = balance(state, &u.accts[MAX_HOLDER].addr, &max_asset).await;
        let huge = matches!(state.get_fees::<RollupDataSubmission>().await, Ok(Some(f)) if f.multiplier() >= 1u128 << 126);
        let sudo = key_for(u, state, "sudo", None).await;
        if bal == u128::MAX {
            if !huge || rng.gen_bool(0.3) {
                if let Some(s) = sudo {
                    let m = [u128::MAX, u128::MAX / 2, (1u128 << 127) + 12345, u128::MAX - 1][rng.gen_range(0..4)];
                    let a = Action::FeeChange(FeeChange::RollupDataSubmission(FeeComponents::new(rng.gen_range(0..10), m)));
                    let base = match next_nonce.get(&s) {
                        Some(n) => *n,
                        None => state.get_account_nonce(&u.accts[s].addr).await.unwrap_or(0),
                    };
                    if let Some(t) = build_tx(s, &u.accts[s].key, base, vec![a], "fee_overflow:arm") {
                        next_nonce.insert(s, base + 1);
                        out.push(t);
                    }
                }
            }
            if huge || rng.gen_bool(0.5) {
                let mut data = vec![0u8; rng.gen_range(2..40)];
                rng.fill_bytes(&mut data);
                let a = Action::RollupDataSubmission(RollupDataSubmission { rollup_id: RollupId::new([9; 32]), data: data.into(), fee_asset: max_asset });
                let base = match next_nonce.get(&MAX_HOLDER) {
                    Some(n) => *n,
                    None => state.get_account_nonce(&u.accts[MAX_HOLDER].addr).await.unwrap_or(0),
                };
                if let Some(t) = build_tx(MAX_HOLDER, &u.accts[MAX_HOLDER].key, base, vec![a], "fee_overflow:attempt") {
                    next_nonce.insert(MAX_HOLDER, base + 1);
                    out.push(t);
                }
            }
        } else if huge {
            if let Some(s) = sudo {
                let a = Action::FeeChange(FeeChange::RollupDataSubmission(FeeComponents::new(rng.gen_range(0..50), rng.gen_range(0..20))));
                let base = match next_nonce.get(&s) {
                    Some(n) => *n,
                    None => state.get_account_nonce(&u.accts[s].addr).await.unwrap_or(0),
                };
                if let Some(t) = build_tx(s, &u.accts[s].key, base, vec![a], "fee_overflow:disarm") {
                    next_nonce.insert(s, base + 1);
                    out.push(t);
                }
            }
        }
    }
    // one withdrawal event id used by two withdrawals that are both constructed against the start-of-block state
    // (two transactions of the withdrawer in one block, or two actions of one transaction), in every pairing of kinds
    if matches!(profile, "bridge" | "ibc" | "mixed" | "ledger" | "atomic") && rng.gen_bool(0.3) {
        let bl = bridges(u, state).await;
        if let Some(&b) = bl.choose(rng) {
            if let Some(w) = key_for(u, state, "bridge_withdrawer", Some(b)).await {
                let basset = match state.get_bridge_account_ibc_asset(&u.accts[b].addr).await {
                    Ok(x) => u.assets.iter().find(|d| d.to_ibc_prefixed() == x).cloned(),
                    Err(_) => None,
                };
                let fee_asset = pick_fee_asset(u, rng, state, false).await;
                let ev = u.next_event_id(b);
                let mut mk = |rng: &mut ChaChaRng, second: bool| -> (Action, &'static str) {
                    let which = if second { rng.gen_range(0..3) } else { rng.gen_range(0..2) };
                    match (which, basset.clone()) {
                        (0, _) | (_, None) => (
                            Action::BridgeUnlock(BridgeUnlock {
                                to: u.accts[2].address(), amount: 1 + u128::from(second), fee_asset: fee_asset.clone(), bridge_address: u.accts[b].address(),
                                memo: "m".into(), rollup_block_number: 3, rollup_withdrawal_event_id: ev.clone(),
                            }),
                            "unlock",
                        ),
                        (_, Some(denom)) => (
                            Action::Ics20Withdrawal(Ics20Withdrawal {
                                amount: 1 + u128::from(second),
                                denom,
                                destination_chain_address: "counterparty1receiver".into(),
                                return_address: u.accts[b].address(),
                                timeout_height: ibc_types::core::client::Height::new(2, 1_000_000).unwrap(),
                                timeout_time: 4_000_000_000_000_000_000,
                                source_channel: ibc_types::core::channel::ChannelId::new(super::ibc::CHANNELS[0].0),
                                fee_asset: fee_asset.clone(),
                                memo: serde_json::to_string(&astria_core::protocol::memos::v1::Ics20WithdrawalFromRollup {
                                    rollup_block_number: 3,
                                    rollup_withdrawal_event_id: ev.clone(),
                                    rollup_return_address: "0xrollupreturn".into(),
                                    memo: "m".into(),
                                })
                                .unwrap(),
                                bridge_address: Some(u.accts[b].address()),
                                use_compat_address: false,
                            }),
                            "ics20",
                        ),
                    }
                };
                let (a1, k1) = mk(rng, false);
                let (a2, k2) = mk(rng, true);
                let base = match next_nonce.get(&w) {
                    Some(n) => *n,
                    None => state.get_account_nonce(&u.accts[w].addr).await.unwrap_or(0),
                };
                if rng.gen_bool(0.3) {
                    if let Some(t) = build_tx(w, &u.accts[w].key, base, vec![a1, a2], &format!("same_event_pair:one_tx:{k1}+{k2}")) {
                        next_nonce.insert(w, base + 1);
                        out.push(t);
                    }
                } else {
                    for (k, a) in [a1, a2].into_iter().enumerate() {
                        if let Some(t) = build_tx(w, &u.accts[w].key, base + k as u32, vec![a], &format!("same_event_pair:two_txs:{k1}+{k2}:{k}")) {
                            next_nonce.insert(w, base + k as u32 + 1);
                            out.push(t);
                        }
                    }
                }
            }
        }
    }
    // transactions that straddle an upgrade: everything generated here is checked (CheckTx, against the state committed *before* the
    // upgrade block) and then executed inside the upgrade block, after `pre_execute_transactions` has applied the upgrade - by the
    // proposer through the CheckedTransaction its mempool built earlier, by everybody else through one rebuilt from the block bytes.
    // One transaction per action kind at the activation height; two bridge accounts are created in the block before, so that
    // bridge actions have something to act on.
    let (aspen, blackburn) = u.upgrades;
    if matches!(profile, "paths" | "mixed" | "bridge" | "authz" | "atomic") && (height + 1 == aspen || height + 1 == blackburn) {
        for _ in 0..2 {
            if let Some((signer, action, _)) = gen_action(u, rng, state, "init_bridge", None, false).await {
                let base = match next_nonce.get(&signer) {
                    Some(n) => *n,
                    None => state.get_account_nonce(&u.accts[signer].addr).await.unwrap_or(0),
                };
                if let Some(b) = build_tx(signer, &u.accts[signer].key, base, vec![action], "before_upgrade:init_bridge") {
                    next_nonce.insert(signer, base + 1);
                    out.push(b);
                }
            }
        }
    }
    if matches!(profile, "paths" | "mixed" | "bridge" | "authz" | "atomic") && (height == aspen || height == blackburn) {
        for kind in ["transfer", "rollup_data", "bridge_lock", "bridge_unlock", "bridge_transfer", "bridge_sudo_change", "bridge_sudo_change", "ics20_withdrawal",
            "validator_update", "fee_asset_change", "fee_change", "ibc_relayer_change", "ibc_sudo_change", "sudo_address_change", "init_bridge"] {
            if let Some((signer, action, intent)) = gen_action(u, rng, state, kind, None, false).await {
                let base = match next_nonce.get(&signer) {
                    Some(n) => *n,
                    None => state.get_account_nonce(&u.accts[signer].addr).await.unwrap_or(0),
                };
                if let Some(b) = build_tx(signer, &u.accts[signer].key, base, vec![action], &format!("straddles_upgrade:{intent}")) {
                    next_nonce.insert(signer, base + 1);
                    out.push(b);
                }
            }
        }
    }
    // a relayer transaction whose IbcRelay action fails: after the Blackburn upgrade that failure is non-fatal, i.e. the transaction stays
    // in the block with an error code - and must leave no trace (C03), still count towards the block limits (C06), pay nothing (C01) and
    // publish no deposit (C04), whatever state-changing actions precede the relay inside the same transaction
    if matches!(profile, "atomic" | "proposals" | "mixed" | "ledger" | "paths" | "bridge") && rng.gen_bool(if profile == "mixed" { 0.15 } else if profile == "proposals" { 0.5 } else { 0.3 }) {
        let mut relayers = vec![];
        for (i, a) in u.accts.iter().enumerate() {
            if i < 12 && state.is_ibc_relayer(&a.addr).await.unwrap_or(false) {
                relayers.push(i);
            }
        }
        if let Some(&r) = relayers.choose(rng) {
            let mut actions = vec![];
            for _ in 0..rng.gen_range(0..=3) {
                let k2 = ["transfer", "rollup_data", "bridge_lock", "rollup_data"][rng.gen_range(0..4)];
                if let Some((_, a2, _)) = gen_action(u, rng, state, k2, Some(r), false).await {
                    actions.push(a2);
                }
            }
            if profile == "proposals" && rng.gen_bool(0.6) {
                // the failed-but-included transaction carries a large share of the block's sequenced data / bytes: it must still be
                // counted towards both limits
                let mut data = vec![0u8; [100_000usize, 180_000, 250_000][rng.gen_range(0..3)]];
                rng.fill_bytes(&mut data[..64]);
                let fee_asset = pick_fee_asset(u, rng, state, false).await;
                actions.insert(0, Action::RollupDataSubmission(RollupDataSubmission { rollup_id: RollupId::new([rng.gen_range(1..=4u8); 32]), data: data.into(), fee_asset }));
            }
            actions.push(Action::Ibc(crate::app::tests_app::bad_ibc_relay()));
            if rng.gen_bool(0.25) {
                if let Some((_, a2, _)) = gen_action(u, rng, state, "transfer", Some(r), false).await {
                    actions.push(a2);
                }
            }
            let base = match next_nonce.get(&r) {
                Some(n) => *n,
                None => state.get_account_nonce(&u.accts[r].addr).await.unwrap_or(0),
            };
            if let Some(b) = build_tx(r, &u.accts[r].key, base, actions, "relay_fails_nonfatal") {
                // the nonce is NOT consumed when the transaction fails non-fatally, so later transactions of the relayer in this
                // block keep using `base` only if this one is pre-Blackburn-fatal and excluded; leave next_nonce untouched
                out.push(b);
            }
        }
    }
    // a busy block: dozens of small rollup data submissions from several signers, interleaved over a few rollup ids (every rollup
    // submits many times, out of id order), so that per-rollup order inside a block is exercised well beyond a handful of items
    if matches!(profile, "rollups" | "mixed") && rng.gen_bool(if profile == "rollups" { 0.3 } else { 0.08 }) {
        let nids = rng.gen_range(2..=4u8);
        let nsigners = rng.gen_range(2..=4usize);
        let first = rng.gen_range(0..6usize);
        for k in 0..nsigners {
            let signer = (first + k) % 8;
            let fee_asset = pick_fee_asset(u, rng, state, false).await;
            let ntx = rng.gen_range(1..=3u32);
            let base = match next_nonce.get(&signer) {
                Some(n) => *n,
                None => state.get_account_nonce(&u.accts[signer].addr).await.unwrap_or(0),
            };
            for t in 0..ntx {
                let nact = rng.gen_range(5..=12);
                let actions: Vec<Action> = (0..nact)
                    .map(|_| {
                        let mut data = vec![0u8; rng.gen_range(8..24)];
                        rng.fill_bytes(&mut data);
                        Action::RollupDataSubmission(RollupDataSubmission { rollup_id: RollupId::new([9 - rng.gen_range(0..nids); 32]), data: data.into(), fee_asset: fee_asset.clone() })
                    })
                    .collect();
                if let Some(b) = build_tx(signer, &u.accts[signer].key, base + t, actions, "busy_block:rollup_data") {
                    next_nonce.insert(signer, base + t + 1);
                    out.push(b);
                }
            }
        }
    }
    // replay of the exact bytes of an earlier committed transaction
    if !committed.is_empty() && rng.gen_bool(0.3) {
        let mut r = committed[rng.gen_range(0..committed.len())].clone();
        r.intent = format!("replay_committed:{}", r.intent);
        out.push(r);
    }
    out.shuffle(rng);
    // keep per-signer nonce order after the shuffle (otherwise almost everything parks)
    let mut by_signer: std::collections::HashMap<usize, Vec<BuiltTx>> = std::collections::HashMap::new();
    let mut order = vec![];
    for b in out {
        order.push(b.signer);
        by_signer.entry(b.signer).or_default().push(b);
    }
    for v in by_signer.values_mut() {
        v.sort_by_key(|b| std::cmp::Reverse(b.nonce));
    }
    order.into_iter().map(|s| by_signer.get_mut(&s).unwrap().pop().unwrap()).collect()
}

/// A transaction for trial execution on a fork of the lab's intermediate state. Most are built to pass construction and
/// fail at execution at a chosen action index; some are plain valid ones, some are attacks refused at construction.
pub(super) async fn build_trial_tx<S: StateRead>(
    u: &mut Universe,
    rng: &mut ChaChaRng,
    state: &S,
    committed: &[BuiltTx],
    _executed: &[Arc<CheckedTransaction>],
    _height: u64,
) -> Option<BuiltTx> {
    let signer = rng.gen_range(0..8);
    let nonce = state.get_account_nonce(&u.accts[signer].addr).await.unwrap_or(0);
    match rng.gen_range(0..10) {
        0 => {
            // replay of committed bytes
            if committed.is_empty() {
                return None;
            }
            let mut r = committed[rng.gen_range(0..committed.len())].clone();
            r.intent = "trial:replay_committed".into();
            Some(r)
        }
        1 => {
            // gapped nonce, otherwise valid
            let (_, a, _) = gen_action(u, rng, state, "transfer", Some(signer), false).await?;
            build_tx(signer, &u.accts[signer].key, nonce + 1 + rng.gen_range(0..2), vec![a], "trial:gapped_nonce")
        }
        2 | 3 => {
            // privileged action by somebody without the privilege
            let kind = ["fee_change", "fee_asset_change", "sudo_change", "validator_update", "ibc_sudo_change", "ibc_relayer_change", "bridge_sudo_change", "bridge_unlock", "bridge_transfer"][rng.gen_range(0..9)];
            let (s, a, intent) = gen_action(u, rng, state, kind, None, true).await?;
            let n = state.get_account_nonce(&u.accts[s].addr).await.unwrap_or(0);
            build_tx(s, &u.accts[s].key, n, vec![a], &format!("trial:{intent}"))
        }
        4 => {
            // plain valid single action
            let kind = pick_kind(rng, "mixed");
            let (s, a, intent) = gen_action(u, rng, state, kind, None, false).await?;
            let n = state.get_account_nonce(&u.accts[s].addr).await.unwrap_or(0);
            build_tx(s, &u.accts[s].key, n, vec![a], &format!("trial:valid:{intent}"))
        }
        _ => {
            // bundle failing at index k: k good actions with side effects, then one that cannot be paid, then more good ones
            let len = rng.gen_range(1..=6usize);
            let k = rng.gen_range(0..len);
            let mut actions = vec![];
            for i in 0..len {
                if i == k {
                    let which = rng.gen_range(0..3);
                    let asset = u.assets[rng.gen_range(0..u.assets.len())].clone();
                    let bal = balance(state, &u.accts[signer].addr, &asset).await;
                    let fee_asset = pick_fee_asset(u, rng, state, false).await;
                    let a = match which {
                        0 => Action::Transfer(Transfer { to: u.accts[rng.gen_range(0..8)].address(), amount: bal.saturating_add(1), asset, fee_asset }),
                        1 => Action::Transfer(Transfer { to: u.accts[rng.gen_range(0..8)].address(), amount: u128::MAX, asset, fee_asset }),
                        _ => {
                            // duplicate withdrawal event id inside one bundle: second use must fail the whole transaction
                            let bl = bridges(u, state).await;
                            let mut found = None;
                            for b in bl {
                                if key_for(u, state, "bridge_withdrawer", Some(b)).await == Some(signer) {
                                    found = Some(b);
                                    break;
                                }
                            }
                            match found {
                                Some(b) => {
                                    let ev = u.next_event_id(b);
                                    let mk = |ev: &str| Action::BridgeUnlock(BridgeUnlock {
                                        to: u.accts[2].address(), amount: 1, fee_asset: fee_asset.clone(), bridge_address: u.accts[b].address(), memo: "m".into(),
                                        rollup_block_number: 3, rollup_withdrawal_event_id: ev.to_string(),
                                    });
                                    actions.push(mk(&ev));
                                    // the second use of the same event id: another unlock, or an ICS-20 withdrawal from the bridge
                                    let basset = match state.get_bridge_account_ibc_asset(&u.accts[b].addr).await {
                                        Ok(x) => u.assets.iter().find(|d| d.to_ibc_prefixed() == x).cloned(),
                                        Err(_) => None,
                                    };
                                    match (rng.gen_bool(0.6), basset) {
                                        (true, Some(denom)) => Action::Ics20Withdrawal(Ics20Withdrawal {
                                            amount: 1,
                                            denom,
                                            destination_chain_address: "counterparty1receiver".into(),
                                            return_address: u.accts[b].address(),
                                            timeout_height: ibc_types::core::client::Height::new(2, 1_000_000).unwrap(),
                                            timeout_time: 4_000_000_000_000_000_000,
                                            source_channel: ibc_types::core::channel::ChannelId::new(0),
                                            fee_asset: fee_asset.clone(),
                                            memo: serde_json::to_string(&astria_core::protocol::memos::v1::Ics20WithdrawalFromRollup {
                                                rollup_block_number: 3,
                                                rollup_withdrawal_event_id: ev.clone(),
                                                rollup_return_address: "0xrollupreturn".into(),
                                                memo: "m".into(),
                                            })
                                            .unwrap(),
                                            bridge_address: Some(u.accts[b].address()),
                                            use_compat_address: false,
                                        }),
                                        _ => mk(&ev),
                                    }
                                }
                                None => Action::Transfer(Transfer { to: u.accts[1].address(), amount: bal.saturating_add(1), asset, fee_asset }),
                            }
                        }
                    };
                    actions.push(a);
                } else {
                    let k2 = ["transfer", "rollup_data", "bridge_lock", "bridge_lock"][rng.gen_range(0..4)];
                    if let Some((_, a, _)) = gen_action(u, rng, state, k2, Some(signer), false).await {
                        actions.push(a);
                    }
                }
            }
            build_tx(signer, &u.accts[signer].key, nonce, actions, &format!("trial:fail_at:{k}"))
        }
    }
}

/// A corrupted variant of an honest proposal. Returns the new tx list and the corruption class.
pub(super) fn corrupt_proposal(rng: &mut ChaChaRng, txs: &[Bytes], committed: &[BuiltTx]) -> (Vec<Bytes>, String) {
    let mut t: Vec<Bytes> = txs.to_vec();
    let n = t.len();
    let class = match rng.gen_range(0..7) {
        0 => {
            let mut b = t[0].to_vec();
            if let Some(x) = b.last_mut() {
                *x ^= 1;
            }
            t[0] = b.into();
            "flip_commitment_byte"
        }
        1 => {
            t.push(Bytes::from_static(b"\x0a\x03junk-not-a-transaction"));
            "append_garbage_tx"
        }
        2 if n >= 1 => {
            let last = t[n - 1].clone();
            t.push(last);
            "duplicate_last_item"
        }
        3 if !committed.is_empty() => {
            t.push(committed[rng.gen_range(0..committed.len())].bytes.clone());
            "append_replayed_committed_tx"
        }
        4 if n >= 2 => {
            t.swap(n - 1, n - 2);
            "swap_last_two_items"
        }
        5 if n >= 1 => {
            t.pop();
            "drop_last_item"
        }
        _ => {
            let mut b = t[n - 1].to_vec();
            b.truncate(b.len() / 2);
            t[n - 1] = b.into();
            "truncate_last_item"
        }
    };
    (t, class.to_string())
}
