//! ChainSim: multi-node ABCI driver for the real sequencer `App` (child module of `astria_sequencer::app`, compiled
//! only with `--features verif` in test builds). Serves C01-C07, C14, C15, C18. See /verif/DESIGN.md section 4.
//!
//! The harness *records*: genesis, every transaction it built, every CheckTx outcome, every consensus call with
//! its result on every node, a digest of every node's full state after every commit, and - from the "lab" node, which
//! replays the decided block through the private steps of `finalize_block` - the key/value diff of the whole state
//! (verifiable, non-verifiable, ephemeral fees and deposits) around every single transaction, plus trial executions
//! of transactions that are built to fail. The oracles are the Python checkers in /verif/lib/checkers.
#![allow(clippy::pedantic, clippy::arithmetic_side_effects, dead_code, unused_imports)]

#[path = "/verif/harness/common/vlog.rs"]
mod vlog;
#[path = "/verif/harness/seq/app/gen.rs"]
mod gen;
#[path = "/verif/harness/seq/app/ibc.rs"]
mod ibc;
#[path = "/verif/harness/seq/app/oracle.rs"]
mod oracle;
#[path = "/verif/harness/seq/app/proposals.rs"]
mod proposals;
#[path = "/verif/harness/seq/app/rollups.rs"]
mod rollups;
#[path = "/verif/harness/seq/app/sim.rs"]
mod sim;
#[path = "/verif/harness/common/mutate.rs"]
mod mutate;
#[path = "/verif/harness/seq/app/wirefuzz.rs"]
mod wirefuzz;

/// entry: VERIF_PROFILE selects generator weights; VERIF_HISTORIES / VERIF_BLOCKS bound the run.
#[tokio::test(flavor = "multi_thread", worker_threads = 2)]
async fn chain() {
    sim::run_from_env().await;
}

/// entry (C17): mutated and re-signed transaction bytes at the CheckTx boundary of a live chain state.
#[tokio::test(flavor = "multi_thread", worker_threads = 2)]
async fn checktx_fuzz() {
    wirefuzz::run().await;
}
