//! C17, in-crate part: untrusted bytes at the sequencer's CheckTx boundary. Real transactions of every action kind the
//! ChainSim generator produces (built against a live multi-block chain state) are mutated structure-aware, both as whole
//! signed transactions and as *bodies that are signed again* with the original signer's key (so the mutant passes the
//! signature check and reaches `CheckedTransaction::new`: per-action conversions, stateful checks against the committed
//! state, cost calculation and mempool insertion). Everything runs under a panic monitor; outcomes are summarised per
//! (entry, operator family, outcome class) and any panic or inconsistent acceptance is recorded with its input.
#![allow(clippy::pedantic, clippy::arithmetic_side_effects, dead_code, unused_imports)]

use std::{
    collections::BTreeMap,
    sync::Arc,
};

use astria_core::{
    generated::astria::protocol::transaction::v1 as rawtx,
    protocol::transaction::v1::Transaction,
    Protobuf as _,
};
use bytes::Bytes;
use prost::Message as _;
use serde_json::json;
use sha2::Digest as _;

use super::{
    mutate,
    sim::{
        vlog_guard_async,
        Sim,
    },
    vlog,
    vlog::VLog,
};
use crate::{
    mempool::Mempool,
    service::mempool::check_tx,
};

fn class_of(oc: &str) -> (&'static str, String) {
    let head = oc.split(|c: char| !c.is_alphanumeric()).next().unwrap_or("");
    match head {
        "AddedToPending" | "AddedToParked" | "AlreadyInPending" | "AlreadyInParked" => ("ok", head.to_string()),
        "InternalError" => ("internal_error", head.to_string()),
        _ => ("err", head.to_string()),
    }
}

pub(super) async fn run() {
    let log = Arc::new(VLog::open("wire-checktx"));
    let (shard, shards) = vlog::shard();
    let hists = vlog::env_u64("VERIF_HISTORIES", 1);
    let cap_whole = vlog::env_u64("VERIF_CAP_WHOLE", 250) as usize;
    let cap_body = vlog::env_u64("VERIF_CAP_BODY", 500) as usize;
    let mut counts: BTreeMap<(String, String, String), u64> = BTreeMap::new();
    let mut kinds_seen: BTreeMap<String, u64> = BTreeMap::new();
    let mut internal_samples: Vec<String> = vec![];
    for k in 0..hists {
        let hist = shard + k * shards;
        let quiet = Arc::new(VLog::open(&format!("cq-checktx-chain{k}")));
        let mut sim = Sim::new(quiet.clone(), vlog::seed() ^ 0xC17_C17, hist, "mixed").await;
        let blocks = 4 + (hist % 4);
        for _ in 0..blocks {
            sim.run_height().await;
            if !sim.ok {
                break;
            }
        }
        quiet.end();
        let node = &sim.nodes[0];
        let metrics = node.app.metrics();
        let snapshot = node.storage.latest_snapshot();
        let all: Vec<Vec<u8>> = sim.all_built.iter().map(|b| b.bytes.to_vec()).collect();
        for (ci, built) in sim.all_built.iter().enumerate() {
            for a in &built.actions {
                *kinds_seen.entry(a["kind"].as_str().unwrap_or("?").to_string()).or_default() += 1;
            }
            let mut mrng = mutate::Rng(vlog::seed() ^ (hist << 20) ^ (ci as u64).wrapping_mul(0x9E37_79B9_7F4A_7C15));
            let key = sim.uni.accts.get(built.signer).map(|a| a.key.clone());
            let Ok(raw) = rawtx::Transaction::decode(&*built.bytes) else { continue };
            let body_bytes = raw.body.as_ref().map(|a| a.value.to_vec()).unwrap_or_default();
            let type_url = raw.body.as_ref().map(|a| a.type_url.clone()).unwrap_or_default();
            let mut inputs: Vec<(&'static str, String, Vec<u8>)> = vec![("check_tx", "valid".to_string(), built.bytes.to_vec())];
            for (op, m) in mutate::mutants(&built.bytes, &all, &mut mrng, 3, cap_whole) {
                inputs.push(("check_tx", op, m));
            }
            if let Some(key) = &key {
                for (op, m) in mutate::mutants(&body_bytes, &[], &mut mrng, 5, cap_body) {
                    let sig = key.sign(&m);
                    let tx = rawtx::Transaction {
                        signature: sig.to_bytes().to_vec().into(),
                        public_key: key.verification_key().to_bytes().to_vec().into(),
                        body: Some(pbjson_types::Any { type_url: type_url.clone(), value: m.into() }),
                    };
                    inputs.push(("check_tx_resigned", op, tx.encode_to_vec()));
                }
            }
            // a fresh app-side mempool per corpus element: insertion limits must not hide the checks behind them
            let mempool = Mempool::new(metrics, 10_000, 10_000);
            for (entry, op, bytes) in inputs {
                let b = Bytes::from(bytes);
                let res = vlog_guard_async(check_tx(b.clone(), snapshot.clone(), &mempool, metrics)).await;
                let fam = mutate::family(&op).to_string();
                match res {
                    Err(panic) => {
                        *counts.entry((entry.to_string(), fam, "panic".into())).or_default() += 1;
                        log.ev(json!({"kind": "decode_case", "entry": entry, "operator": op, "outcome": format!("panic:{panic}"), "input": vlog::hex(&b)}));
                    }
                    Ok(outcome) => {
                        let oc = format!("{outcome:?}");
                        let (class, head) = class_of(&oc);
                        let mut class = class.to_string();
                        if head == "AddedToPending" || head == "AddedToParked" {
                            // independent re-check of what was accepted: the public decoder must accept the same bytes
                            // (signature valid) and re-encode it stably
                            let again = rawtx::Transaction::decode(&*b).ok().and_then(|r| Transaction::try_from_raw(r).ok());
                            match again {
                                None => class = "ok_but_public_decoder_rejects".into(),
                                Some(tx) => {
                                    // accepted value re-encodes to an equivalent message: decoding the re-encoding gives the same value
                                    let re = tx.to_raw().encode_to_vec();
                                    let same = rawtx::Transaction::decode(&*re).ok().and_then(|r| Transaction::try_from_raw(r).ok()).map(|t2| t2.to_raw().encode_to_vec() == re);
                                    if same != Some(true) {
                                        class = "ok_but_roundtrip_differs".into();
                                    }
                                }
                            }
                        }
                        if op == "valid" && class != "ok" && built.intent == "valid" && head != "RemovedFromMempool" {
                            // not judged (the chain state moved on since the transaction was generated), recorded
                            *counts.entry((entry.to_string(), "valid_now_refused".into(), "err".into())).or_default() += 1;
                            continue;
                        }
                        if class == "internal_error" && internal_samples.len() < 6 {
                            let msg: String = oc.chars().take(260).collect();
                            if !internal_samples.iter().any(|m: &String| m[..m.len().min(80)] == msg[..msg.len().min(80)]) {
                                internal_samples.push(msg);
                            }
                        }
                        if class.starts_with("ok_but") {
                            log.ev(json!({"kind": "decode_case", "entry": entry, "operator": op, "outcome": class, "input": vlog::hex(&b)}));
                        }
                        *counts.entry((entry.to_string(), fam, class)).or_default() += 1;
                    }
                }
            }
        }
    }
    for ((entry, op, outcome), n) in counts {
        log.ev(json!({"kind": "decode_summary", "entry": entry, "operator": op, "outcome": outcome, "n": n}));
    }
    log.ev(json!({"kind": "checktx_corpus", "action_kinds": kinds_seen, "internal_error_samples": internal_samples}));
    log.end();
}
