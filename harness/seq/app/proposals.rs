//! C06: a catalogue of single mutations of an honest proposal, each judged by the real `process_proposal` of a node that is
//! at the same committed state as the proposer. Every crafted-from-scratch proposal has a control twin that must be accepted.
#![allow(clippy::pedantic, clippy::arithmetic_side_effects, dead_code, unused_imports)]

use std::{
    collections::HashMap,
    sync::Arc,
};

use astria_core::{
    generated::astria::protocol::transaction::v1 as raw,
    primitive::v1::RollupId,
    protocol::transaction::v1::{
        action::{
            RollupDataSubmission,
            Transfer,
        },
        Action,
    },
};
use bytes::Bytes;
use prost::Message as _;
use rand::{
    Rng as _,
    RngCore as _,
};
use serde_json::json;

use super::{
    gen,
    gen::BuiltTx,
    sim::{
        tx_ids,
        BlockCtx,
        Sim,
    },
    vlog,
};
use crate::{
    accounts::StateReadExt as _,
    checked_transaction::CheckedTransaction,
    proposal::commitment::generate_rollup_datas_commitment,
};

pub(super) struct Mutant {
    pub(super) class: String,
    pub(super) must_reject: Option<bool>, // Some(true): must be rejected; Some(false): must be accepted (control); None: either
    pub(super) txs: Vec<Bytes>,
    pub(super) note: String,
}

impl Sim {
    /// Builds the mutants of `ctx` (the honest decided proposal) and lets node `judge` process each of them.
    pub(super) async fn mutate_and_judge(&mut self, ctx: &BlockCtx, judge: usize, built: &[BuiltTx]) {
        let snapshot = self.nodes[judge].storage.latest_snapshot();
        let _ = built;
        let all_built = self.all_built.clone();
        let by_bytes: HashMap<Bytes, &BuiltTx> = all_built.iter().map(|b| (b.bytes.clone(), b)).collect();
        let first_user = ctx.txs.iter().position(|t| by_bytes.contains_key(t)).unwrap_or(ctx.txs.len());
        let injected = &ctx.txs[..first_user];
        let user = &ctx.txs[first_user..];
        // group / rollup data / signer of every user tx of the block
        let mut info = vec![];
        for t in user {
            match CheckedTransaction::new(t.clone(), &snapshot).await {
                Ok(c) => info.push(Some((format!("{:?}", c.group()), c.rollup_data_bytes().count() > 0, by_bytes.get(t).map(|b| b.signer)))),
                Err(_) => info.push(None),
            }
        }
        let mut mutants: Vec<Mutant> = vec![];
        let with = |class: &str, must: Option<bool>, txs: Vec<Bytes>, note: String| Mutant { class: class.to_string(), must_reject: must, txs, note };
        let n = ctx.txs.len();
        // ---- commitments and typed data items
        for k in 0..injected.len().min(2) {
            let mut t = ctx.txs.clone();
            let mut b = t[k].to_vec();
            let pos = self.rng.gen_range(0..b.len().max(1));
            if let Some(x) = b.get_mut(pos) {
                *x ^= 1 << self.rng.gen_range(0..8);
            }
            t[k] = b.into();
            mutants.push(with("flip_commitment_byte", Some(true), t, format!("item {k} byte {pos}")));
        }
        if injected.len() >= 2 && injected[0] != injected[1] {
            let mut t = ctx.txs.clone();
            t.swap(0, 1);
            mutants.push(with("swap_commitments", Some(true), t, String::new()));
        }
        for k in 0..injected.len() {
            let mut t = ctx.txs.clone();
            t.remove(k);
            mutants.push(with("drop_data_item", Some(true), t, format!("item {k} of {}", injected.len())));
            let mut t = ctx.txs.clone();
            t.insert(k, ctx.txs[k].clone());
            mutants.push(with("duplicate_data_item", Some(true), t, format!("item {k}")));
        }
        if injected.len() >= 3 {
            let mut t = ctx.txs.clone();
            t.swap(0, injected.len() - 1);
            if t != ctx.txs {
                mutants.push(with("wrong_item_kind_at_position", Some(true), t, "first and last injected item swapped".into()));
            }
        }
        // ---- user transactions
        if !user.is_empty() {
            let k = first_user + self.rng.gen_range(0..user.len());
            // garbage / truncated / bad signature
            let mut t = ctx.txs.clone();
            t[k] = Bytes::from_static(b"\x0a\x05hello\x12\x03abc");
            mutants.push(with("tx_replaced_by_garbage", Some(true), t, format!("tx {k}")));
            let mut t = ctx.txs.clone();
            let cut = 1 + self.rng.gen_range(0..ctx.txs[k].len() - 1);
            t[k] = ctx.txs[k].slice(..cut);
            mutants.push(with("tx_truncated", Some(true), t, format!("tx {k} cut at {cut}")));
            if let Ok(mut rawtx) = raw::Transaction::decode(ctx.txs[k].clone()) {
                let mut sig = rawtx.signature.to_vec();
                if !sig.is_empty() {
                    let p = self.rng.gen_range(0..sig.len());
                    sig[p] ^= 1 << self.rng.gen_range(0..8);
                    rawtx.signature = sig.into();
                    let mut t = ctx.txs.clone();
                    t[k] = rawtx.encode_to_vec().into();
                    mutants.push(with("tx_signature_bit_flipped", Some(true), t, format!("tx {k}")));
                }
                // body altered, signature kept
                let mut rawtx2 = raw::Transaction::decode(ctx.txs[k].clone()).unwrap();
                if let Some(body) = rawtx2.body.as_mut() {
                    let mut b = body.value.to_vec();
                    if let Some(x) = b.last_mut() {
                        *x ^= 0x01;
                    }
                    body.value = b.into();
                    let mut t = ctx.txs.clone();
                    t[k] = rawtx2.encode_to_vec().into();
                    mutants.push(with("tx_body_altered_signature_kept", Some(true), t, format!("tx {k}")));
                }
            }
            // duplicate a tx (same nonce twice)
            let mut t = ctx.txs.clone();
            t.insert(k + 1, ctx.txs[k].clone());
            // a transaction that fails non-fatally (IbcRelay after Blackburn) does not consume its nonce, so a block carrying it twice
            // is not in any of the property's must-reject classes: either answer is acceptable for it
            let nonfatal = by_bytes.get(&ctx.txs[k]).is_some_and(|b| b.intent.starts_with("relay_fails_nonfatal"));
            mutants.push(with("tx_duplicated", if nonfatal { None } else { Some(true) }, t, format!("tx {k} nonfatal_failer={nonfatal}")));
            // drop a tx: malformed only if it carried rollup data (commitment) or a later tx of the same signer depends on its nonce
            let ki = k - first_user;
            if let Some((_, has_data, signer)) = &info[ki] {
                let later_same_signer = info[ki + 1..].iter().flatten().any(|(_, _, s)| s == signer && s.is_some());
                let mut t = ctx.txs.clone();
                t.remove(k);
                let must = if *has_data || (later_same_signer && !nonfatal) { Some(true) } else { None };
                mutants.push(with("tx_dropped", must, t, format!("tx {k} has_rollup_data={has_data} later_same_signer={later_same_signer}")));
            }
        }
        // nonce order of one signer swapped
        for i in 0..user.len().saturating_sub(1) {
            if let (Some((_, _, Some(s1))), Some((_, _, Some(s2)))) = (&info[i], &info[i + 1]) {
                if s1 == s2 {
                    let mut t = ctx.txs.clone();
                    t.swap(first_user + i, first_user + i + 1);
                    mutants.push(with("same_signer_nonce_order_swapped", Some(true), t, format!("tx {} and {}", first_user + i, first_user + i + 1)));
                    break;
                }
            }
        }
        // group order violated: a lower-priority group placed before a higher one
        for i in 0..user.len() {
            for j in i + 1..user.len() {
                if let (Some((g1, d1, s1)), Some((g2, d2, s2))) = (&info[i], &info[j]) {
                    if g1 != g2 && s1 != s2 && !d1 && !d2 {
                        let mut t = ctx.txs.clone();
                        t.swap(first_user + i, first_user + j);
                        mutants.push(with("group_order_violated", Some(true), t, format!("{g1} <-> {g2}")));
                    }
                }
            }
        }
        // ---- appended transactions
        if let Some(r) = self.committed_txs.get(self.rng.gen_range(0..self.committed_txs.len().max(1))) {
            let mut t = ctx.txs.clone();
            t.push(r.bytes.clone());
            // a committed transaction that failed non-fatally never consumed its nonce: replaying it is not a must-reject defect
            let must = if r.intent.contains("relay_fails_nonfatal") { None } else { Some(true) };
            mutants.push(with("append_replayed_committed_tx", must, t, format!("{} intent={}", &r.id[..12], r.intent)));
        }
        // a validly signed transfer of more than the signer owns (fails fatally at execution)
        {
            let s = self.rng.gen_range(0..8usize);
            let in_block = info.iter().flatten().filter(|(_, _, x)| *x == Some(s)).count() as u32;
            let nonce = snapshot.get_account_nonce(&self.uni.accts[s].addr).await.unwrap_or(0) + in_block;
            let bal = snapshot.get_account_balance(&self.uni.accts[s].addr, &self.uni.assets[0]).await.unwrap_or(0);
            let a = Action::Transfer(Transfer { to: self.uni.accts[(s + 1) % 8].address(), amount: u128::MAX - u128::from(bal % 7), asset: self.uni.assets[0].clone(), fee_asset: self.uni.assets[0].clone() });
            if let Some(b) = gen::build_tx(s, &self.uni.accts[s].key, nonce, vec![a], "byzantine:unaffordable") {
                let mut t = ctx.txs.clone();
                t.push(b.bytes.clone());
                self.log.ev(b.to_json(self.hist, ctx.height));
                mutants.push(with("append_fatally_failing_tx", Some(true), t, format!("transfer of ~u128::MAX by A{s} nonce {nonce}")));
            }
        }
        // ---- sequenced-data limit: crafted from scratch with recomputed commitments; the twin at exactly the limit is the control
        if self.height > self.upgrades.0 && first_user >= 2 {
            let rich = (0..8usize).max_by_key(|i| self.uni.native_balances[*i]).unwrap();
            let base_nonce = snapshot.get_account_nonce(&self.uni.accts[rich].addr).await.unwrap_or(0);
            for (class, sizes, must) in [
                ("sequenced_data_exactly_at_limit", vec![200_000usize, 56_000], Some(false)),
                ("sequenced_data_over_limit_by_one", vec![200_000, 56_001], Some(true)),
                ("sequenced_data_far_over_limit", vec![200_000, 200_000], Some(true)),
            ] {
                let mut txs = vec![];
                let mut ok = true;
                for (k, sz) in sizes.iter().enumerate() {
                    let mut data = vec![0u8; *sz];
                    self.rng.fill_bytes(&mut data[..64]);
                    let a = Action::RollupDataSubmission(RollupDataSubmission { rollup_id: RollupId::new([7; 32]), data: data.into(), fee_asset: self.uni.assets[0].clone() });
                    match gen::build_tx(rich, &self.uni.accts[rich].key, base_nonce + k as u32, vec![a], "byzantine:big_rollup_data") {
                        Some(b) => txs.push(b.bytes),
                        None => ok = false,
                    }
                }
                let mut checked = vec![];
                for t in &txs {
                    match CheckedTransaction::new(t.clone(), &snapshot).await {
                        Ok(c) => checked.push(Arc::new(c)),
                        Err(_) => ok = false,
                    }
                }
                if !ok {
                    continue;
                }
                let commitments: Vec<Bytes> = generate_rollup_datas_commitment::<true>(&checked, HashMap::new()).into_iter().collect();
                let mut t: Vec<Bytes> = commitments;
                t.extend(injected[2..].iter().cloned());
                t.extend(txs);
                mutants.push(with(class, must, t, format!("payload sizes {sizes:?} signed by A{rich}")));
            }
        }
        // ---- control: the honest proposal itself under another block hash must be accepted
        mutants.push(with("control_honest_proposal", Some(false), ctx.txs.clone(), String::new()));

        for (i, m) in mutants.into_iter().enumerate() {
            let mut mctx = ctx.clone();
            mctx.txs = m.txs;
            mctx.hash[31] = mctx.hash[31].wrapping_add(1 + i as u8);
            mctx.hash[30] ^= 0x5A;
            let accepted = self.process_on(judge, &mctx, &format!("mutant:{}", m.class)).await;
            self.log.ev(json!({"kind": "proposal_mutation", "hist": self.hist, "height": ctx.height, "node": judge, "class": m.class,
                "must_reject": m.must_reject, "accepted": accepted, "note": m.note, "n_items": mctx.txs.len(), "honest_items": n,
                "typed_items": self.height >= self.upgrades.0}));
        }
    }
}
