//! C07: what the sequencer stores and serves for a finalized block (full block, blocks filtered to arbitrary rollup
//! subsets) and what the relayer would split off for Celestia, decoded through the public checked types the receivers
//! use, plus a catalogue of single-element tamperings that must fail verification at the receiver. Recorder only.
#![allow(clippy::pedantic, clippy::arithmetic_side_effects, dead_code, unused_imports)]

use std::sync::Arc;

use astria_core::{
    generated::astria::sequencerblock::v1::{
        self as raw,
        sequencer_service_server::SequencerService as _,
    },
    primitive::v1::RollupId,
    sequencerblock::v1::{
        block::{
            FilteredSequencerBlock,
            RollupData,
        },
        SequencerBlock,
        SubmittedMetadata,
        SubmittedRollupData,
    },
    Protobuf as _,
};
use prost::Message as _;
use rand::Rng as _;
use serde_json::json;
use sha2::Digest as _;

use super::{
    sim::Sim,
    vlog,
};
use crate::grpc::sequencer::SequencerServer;

fn item_json(item: &bytes::Bytes) -> serde_json::Value {
    match raw::RollupData::decode(item.clone()).ok().and_then(|r| RollupData::try_from_raw(r).ok()) {
        Some(RollupData::SequencedData(d)) => json!({"seq": vlog::hex(&sha2::Sha256::digest(&d)[..10]), "len": d.len()}),
        Some(RollupData::Deposit(d)) => json!({"deposit": super::sim::deposit_json(&d)}),
        Some(RollupData::PriceFeedData(_)) => json!({"price_feed": true}),
        None => json!({"undecodable": vlog::hex(&item[..item.len().min(16)])}),
    }
}

fn rfc6962_root<T: AsRef<[u8]>>(leaves: &[T]) -> [u8; 32] {
    match leaves.len() {
        0 => sha2::Sha256::digest([]).into(),
        1 => {
            let mut h = sha2::Sha256::new();
            h.update([0u8]);
            h.update(leaves[0].as_ref());
            h.finalize().into()
        }
        n => {
            let mut k = 1;
            while k * 2 < n {
                k *= 2;
            }
            let mut h = sha2::Sha256::new();
            h.update([1u8]);
            h.update(rfc6962_root(&leaves[..k]));
            h.update(rfc6962_root(&leaves[k..]));
            h.finalize().into()
        }
    }
}

/// conductor's audit of a Celestia rollup entry against the metadata of the same block
fn audits(r: &SubmittedRollupData, m: &SubmittedMetadata) -> bool {
    r.sequencer_block_hash() == m.block_hash()
        && r.proof()
            .audit()
            .with_root(*m.rollup_transactions_root())
            .with_leaf_builder()
            .write(r.rollup_id().as_bytes())
            .write(&rfc6962_root(r.transactions()))
            .finish_leaf()
            .perform()
}

impl Sim {
    pub(super) async fn serve_and_tamper(&mut self, height: u64) {
        let hist = self.hist;
        let node = &self.nodes[0];
        let server = Arc::new(SequencerServer::new(node.storage.clone(), node.app.mempool(), node.app.upgrades_handler().upgrades().clone()));
        let full_raw = match server.clone().get_sequencer_block(tonic::Request::new(raw::GetSequencerBlockRequest { height })).await {
            Ok(r) => r.into_inner(),
            Err(e) => {
                self.log.ev(json!({"kind": "served_error", "hist": hist, "height": height, "what": "get_sequencer_block", "err": e.to_string()}));
                return;
            }
        };
        let full = match SequencerBlock::try_from_raw(full_raw.clone()) {
            Ok(b) => b,
            Err(e) => {
                self.log.ev(json!({"kind": "served_invalid", "hist": hist, "height": height, "what": "full block fails its own verification", "err": e.to_string()}));
                return;
            }
        };
        let ids: Vec<RollupId> = full.rollup_transactions().keys().copied().collect();
        let mut per_rollup = serde_json::Map::new();
        for (id, txs) in full.rollup_transactions() {
            per_rollup.insert(id.to_string(), txs.transactions().iter().map(item_json).collect());
        }
        self.log.ev(json!({"kind": "served_full", "hist": hist, "height": height, "hash": vlog::hex(full.block_hash().as_bytes()),
            "rollup_ids": ids.iter().map(ToString::to_string).collect::<Vec<_>>(), "rollups": per_rollup}));

        // ---- filtered blocks: every subset for <= 4 rollups, sampled subsets above; plus ids the block does not contain
        let universe: Vec<RollupId> = ids.iter().copied().chain([RollupId::new([0xEE; 32])]).collect();
        let nsub: Vec<u32> = if universe.len() <= 5 { (0..(1u32 << universe.len())).collect() } else { (0..24).map(|_| self.rng.gen_range(0..(1u32 << universe.len()))).collect() };
        for mask in nsub {
            let base: Vec<RollupId> = universe.iter().enumerate().filter(|(i, _)| mask & (1 << i) != 0).map(|(_, r)| *r).collect();
            // the request lists ids in any order and may repeat one: as listed by the block, reversed, shuffled, with a duplicate
            let mut orders: Vec<Vec<RollupId>> = vec![base.clone()];
            if base.len() >= 2 {
                let mut r = base.clone();
                r.reverse();
                orders.push(r);
                let mut d = base.clone();
                d.push(base[self.rng.gen_range(0..base.len())]);
                orders.push(d);
            }
            if base.len() >= 3 {
                use rand::seq::SliceRandom as _;
                let mut sh = base.clone();
                sh.shuffle(&mut self.rng);
                orders.push(sh);
            }
            for want in orders {
            let req = raw::GetFilteredSequencerBlockRequest { height, rollup_ids: want.iter().map(|r| r.into_raw()).collect() };
            match server.clone().get_filtered_sequencer_block(tonic::Request::new(req)).await {
                Ok(r) => {
                    let rawf = r.into_inner();
                    match FilteredSequencerBlock::try_from_raw(rawf) {
                        Ok(f) => {
                            let mut m = serde_json::Map::new();
                            for (id, txs) in f.rollup_transactions() {
                                m.insert(id.to_string(), txs.transactions().iter().map(item_json).collect());
                            }
                            self.log.ev(json!({"kind": "served_filtered", "hist": hist, "height": height, "requested": want.iter().map(ToString::to_string).collect::<Vec<_>>(),
                                "all_rollup_ids": f.all_rollup_ids().iter().map(ToString::to_string).collect::<Vec<_>>(), "rollups": m,
                                "hash": vlog::hex(f.block_hash().as_bytes())}));
                        }
                        Err(e) => self.log.ev(json!({"kind": "served_invalid", "hist": hist, "height": height, "what": "filtered block fails its own verification",
                            "requested": want.len(), "err": e.to_string()})),
                    }
                }
                Err(e) => self.log.ev(json!({"kind": "served_error", "hist": hist, "height": height, "what": "get_filtered_sequencer_block", "err": e.to_string()})),
            }
            }
        }

        // ---- what the relayer splits off for Celestia, decoded and audited like conductor does
        let (meta, rollup_entries) = full.clone().split_for_celestia();
        let meta_checked = SubmittedMetadata::try_from_raw(meta.clone().into_raw());
        let mut cel = serde_json::Map::new();
        let mut all_audit = true;
        for r in &rollup_entries {
            let ok = SubmittedRollupData::try_from_raw(r.clone().into_raw()).is_ok() && meta_checked.as_ref().map(|m| audits(r, m)).unwrap_or(false);
            all_audit &= ok;
            cel.insert(r.rollup_id().to_string(), json!({"items": r.transactions().iter().map(item_json).collect::<Vec<_>>(), "audits": ok}));
        }
        self.log.ev(json!({"kind": "celestia_split", "hist": hist, "height": height, "metadata_ok": meta_checked.is_ok(),
            "metadata_rollup_ids": meta.rollup_ids().map(ToString::to_string).collect::<Vec<_>>(), "rollups": cel, "all_audit": all_audit}));

        // ---- tampering: every mutant must be rejected by the receiver-side verification
        let mut verdicts: Vec<serde_json::Value> = vec![];
        let mut judge_full = |class: &str, rawb: raw::SequencerBlock, verdicts: &mut Vec<serde_json::Value>| {
            if rawb == full_raw {
                return; // identical artefact (e.g. swapping two equal payloads)
            }
            let res = vlog::guarded(|| SequencerBlock::try_from_raw(rawb));
            let v = match res {
                Ok(Ok(_)) => "accepted".to_string(),
                Ok(Err(_)) => "rejected".to_string(),
                Err(p) => format!("panic:{p}"),
            };
            verdicts.push(json!(["full", class, v]));
        };
        let nr = full_raw.rollup_transactions.len();
        if nr > 0 {
            let k = self.rng.gen_range(0..nr);
            let ntx = full_raw.rollup_transactions[k].transactions.len();
            if ntx > 0 {
                let t = self.rng.gen_range(0..ntx);
                let mut b = full_raw.clone();
                let mut x = b.rollup_transactions[k].transactions[t].to_vec();
                if x.is_empty() {
                    x.push(1);
                } else {
                    let p = self.rng.gen_range(0..x.len());
                    x[p] ^= 1 << self.rng.gen_range(0..8);
                }
                b.rollup_transactions[k].transactions[t] = x.into();
                judge_full("payload_byte_flipped", b, &mut verdicts);
                let mut b = full_raw.clone();
                b.rollup_transactions[k].transactions.remove(t);
                judge_full("payload_dropped", b, &mut verdicts);
                let mut b = full_raw.clone();
                let dup = b.rollup_transactions[k].transactions[t].clone();
                b.rollup_transactions[k].transactions.push(dup);
                judge_full("payload_appended", b, &mut verdicts);
                if ntx >= 2 {
                    let mut b = full_raw.clone();
                    b.rollup_transactions[k].transactions.swap(0, ntx - 1);
                    judge_full("payloads_reordered", b, &mut verdicts);
                }
                if nr >= 2 {
                    let j = (k + 1) % nr;
                    let mut b = full_raw.clone();
                    let moved = b.rollup_transactions[k].transactions.remove(t);
                    b.rollup_transactions[j].transactions.push(moved);
                    judge_full("payload_moved_to_other_rollup", b, &mut verdicts);
                    let mut b = full_raw.clone();
                    let (a_id, b_id) = (b.rollup_transactions[k].rollup_id.clone(), b.rollup_transactions[j].rollup_id.clone());
                    b.rollup_transactions[k].rollup_id = b_id;
                    b.rollup_transactions[j].rollup_id = a_id;
                    judge_full("rollup_ids_relabelled", b, &mut verdicts);
                }
            }
            let mut b = full_raw.clone();
            if let Some(p) = b.rollup_transactions[k].proof.as_mut() {
                p.leaf_index = p.leaf_index.wrapping_add(1);
            }
            judge_full("full_block_proof_index_changed", b, &mut verdicts);
            let mut b = full_raw.clone();
            if let Some(p) = b.rollup_transactions[k].proof.as_mut() {
                p.tree_size = p.tree_size.wrapping_add(2);
            }
            judge_full("obs_full_block_proof_size_changed", b, &mut verdicts);
            let mut b = full_raw.clone();
            if let Some(p) = b.rollup_transactions[k].proof.as_mut() {
                let mut ap = p.audit_path.to_vec();
                if ap.is_empty() {
                    ap.extend_from_slice(&[7u8; 32]);
                } else {
                    ap[0] ^= 1;
                }
                p.audit_path = ap.into();
            }
            judge_full("full_block_proof_path_changed", b, &mut verdicts);
            let mut b = full_raw.clone();
            b.rollup_transactions.remove(k);
            judge_full("rollup_dropped", b, &mut verdicts);
        }
        {
            let mut b = full_raw.clone();
            if let Some(h) = b.header.as_mut() {
                let mut r = h.rollup_transactions_root.to_vec();
                r[0] ^= 1;
                h.rollup_transactions_root = r.into();
            }
            judge_full("header_rollup_root_changed", b, &mut verdicts);
            let mut b = full_raw.clone();
            if let Some(h) = b.header.as_mut() {
                let mut r = h.data_hash.to_vec();
                r[31] ^= 0x80;
                h.data_hash = r.into();
            }
            judge_full("header_data_hash_changed", b, &mut verdicts);
            let mut b = full_raw.clone();
            b.rollup_transactions.push(raw::RollupTransactions {
                rollup_id: Some(RollupId::new([0xDD; 32]).into_raw()),
                transactions: vec![bytes::Bytes::from_static(b"\x0a\x03abc")],
                proof: full_raw.rollup_transactions.first().and_then(|r| r.proof.clone()).or(full_raw.rollup_ids_proof.clone()),
            });
            judge_full("rollup_invented", b, &mut verdicts);
        }
        // the filtered block (what conductor's soft path consumes): here the per-rollup proof is what binds the data
        if !ids.is_empty() {
            let req = raw::GetFilteredSequencerBlockRequest { height, rollup_ids: ids.iter().map(|r| r.into_raw()).collect() };
            if let Ok(resp) = server.clone().get_filtered_sequencer_block(tonic::Request::new(req)).await {
                let f_raw = resp.into_inner();
                let nrf = f_raw.rollup_transactions.len();
                let mut judge_f = |class: &str, x: raw::FilteredSequencerBlock, verdicts: &mut Vec<serde_json::Value>| {
                    if x == f_raw {
                        return;
                    }
                    let v = match vlog::guarded(|| FilteredSequencerBlock::try_from_raw(x)) {
                        Ok(Ok(_)) => "accepted".to_string(),
                        Ok(Err(_)) => "rejected".to_string(),
                        Err(p) => format!("panic:{p}"),
                    };
                    verdicts.push(json!(["filtered", class, v]));
                };
                if nrf > 0 {
                    let k = self.rng.gen_range(0..nrf);
                    let mut x = f_raw.clone();
                    if let Some(p) = x.rollup_transactions[k].proof.as_mut() {
                        p.leaf_index = p.leaf_index.wrapping_add(1);
                    }
                    judge_f("proof_index_changed", x, &mut verdicts);
                    let mut x = f_raw.clone();
                    if let Some(p) = x.rollup_transactions[k].proof.as_mut() {
                        p.tree_size = p.tree_size.wrapping_add(2);
                    }
                    judge_f("obs_filtered_proof_size_changed", x, &mut verdicts);
                    let mut x = f_raw.clone();
                    if let Some(p) = x.rollup_transactions[k].proof.as_mut() {
                        let mut ap = p.audit_path.to_vec();
                        if ap.is_empty() {
                            ap.extend_from_slice(&[7u8; 32]);
                        } else {
                            ap[0] ^= 1;
                        }
                        p.audit_path = ap.into();
                    }
                    judge_f("proof_path_changed", x, &mut verdicts);
                    if !f_raw.rollup_transactions[k].transactions.is_empty() {
                        let mut x = f_raw.clone();
                        let mut t = x.rollup_transactions[k].transactions[0].to_vec();
                        t.push(9);
                        x.rollup_transactions[k].transactions[0] = t.into();
                        judge_f("filtered_payload_extended", x, &mut verdicts);
                        let mut x = f_raw.clone();
                        x.rollup_transactions[k].transactions.remove(0);
                        judge_f("filtered_payload_dropped", x, &mut verdicts);
                    }
                    let mut x = f_raw.clone();
                    x.rollup_transactions[k].rollup_id = Some(RollupId::new([0xCB; 32]).into_raw());
                    judge_f("filtered_rollup_relabelled", x, &mut verdicts);
                    let mut x = f_raw.clone();
                    x.all_rollup_ids.push(RollupId::new([0xCA; 32]).into_raw());
                    judge_f("filtered_rollup_id_list_extended", x, &mut verdicts);
                    if nrf >= 2 {
                        let mut x = f_raw.clone();
                        let pa = x.rollup_transactions[0].proof.clone();
                        x.rollup_transactions[0].proof = x.rollup_transactions[1].proof.clone();
                        x.rollup_transactions[1].proof = pa;
                        judge_f("filtered_proofs_swapped", x, &mut verdicts);
                    }
                }
                let mut x = f_raw.clone();
                let mut bh = x.block_hash.to_vec();
                bh[0] ^= 1;
                x.block_hash = bh.into();
                judge_f("obs_filtered_block_hash_changed", x, &mut verdicts);
            }
        }
        // Celestia entries against the metadata (conductor's audit)
        if let Ok(m) = &meta_checked {
            for r in rollup_entries.iter().take(2) {
                let rawr = r.clone().into_raw();
                let mut variants: Vec<(&str, raw::SubmittedRollupData)> = vec![];
                if !rawr.transactions.is_empty() {
                    let mut x = rawr.clone();
                    let mut t = x.transactions[0].to_vec();
                    t.push(0);
                    x.transactions[0] = t.into();
                    variants.push(("celestia_payload_extended", x));
                    let mut x = rawr.clone();
                    x.transactions.pop();
                    variants.push(("celestia_payload_truncated", x));
                }
                let mut x = rawr.clone();
                x.rollup_id = Some(RollupId::new([0xCC; 32]).into_raw());
                variants.push(("celestia_rollup_relabelled", x));
                let mut x = rawr.clone();
                let mut hsh = x.sequencer_block_hash.to_vec();
                hsh[0] ^= 1;
                x.sequencer_block_hash = hsh.into();
                variants.push(("celestia_other_block_hash", x));
                for (class, x) in variants {
                    let res = vlog::guarded(|| SubmittedRollupData::try_from_raw(x).map(|c| audits(&c, m)));
                    let v = match res {
                        Ok(Ok(true)) => "accepted".to_string(),
                        Ok(_) => "rejected".to_string(),
                        Err(p) => format!("panic:{p}"),
                    };
                    verdicts.push(json!(["celestia", class, v]));
                }
            }
        }
        self.log.ev(json!({"kind": "tamper_verdicts", "hist": hist, "height": height, "verdicts": verdicts}));
    }
}
