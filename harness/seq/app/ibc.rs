//! IBC for the ChainSim: channel fixture, outgoing withdrawals, and incoming packets driven at the boundary where
//! Astria's code starts (the penumbra `AppHandler` implementation `Ics20Transfer`).
#![allow(clippy::pedantic, clippy::arithmetic_side_effects, dead_code, unused_imports)]

use std::time::Duration;

use astria_core::{
    primitive::v1::{
        asset::Denom,
        TransactionId,
    },
    protocol::memos::v1::{
        Ics20TransferDeposit,
        Ics20WithdrawalFromRollup,
    },
};
use cnidarium::{
    StateRead,
    StateWrite,
};
use ibc_types::{
    core::{
        channel::{
            channel::{
                Order,
                State as ChannelState,
            },
            msgs::{
                MsgAcknowledgement,
                MsgRecvPacket,
                MsgTimeout,
            },
            packet::Sequence,
            ChannelEnd,
            ChannelId,
            Counterparty as ChannelCounterparty,
            Packet,
            PortId,
            TimeoutHeight,
            Version as ChannelVersion,
        },
        client::{
            ClientId,
            ClientType,
            Height as IbcHeight,
        },
        commitment::{
            MerkleProof,
            MerkleRoot,
        },
        connection::{
            ConnectionEnd,
            ConnectionId,
            State as ConnectionState,
        },
    },
    lightclients::tendermint::{
        client_state::{
            AllowUpdate,
            ClientState,
        },
        ConsensusState,
        TrustThreshold,
    },
    timestamp::Timestamp,
};
use penumbra_ibc::component::{
    app_handler::{
        AppHandlerCheck as _,
        AppHandlerExecute as _,
    },
    ChannelStateWriteExt as _,
    ClientStateWriteExt as _,
    ConnectionStateWriteExt as _,
    ConsensusStateWriteExt as _,
};
use penumbra_proto::core::component::ibc::v1::FungibleTokenPacketData;
use rand::Rng as _;
use rand_chacha::ChaChaRng;
use serde_json::json;

use super::{
    gen::Universe,
    vlog,
};
use crate::{
    accounts::StateReadExt as _,
    app::StateWriteExt as _,
    bridge::StateReadExt as _,
    ibc::{
        host_interface::AstriaHost,
        ics20_transfer::Ics20Transfer,
        StateReadExt as _,
        StateWriteExt as _,
    },
    test_utils::astria_compat_address,
};

pub(super) const CHANNELS: [(u64, u64); 2] = [(0, 7), (1, 8)]; // (local, counterparty)

/// Installs an active tendermint client, an open connection and two open transfer channels.
pub(super) async fn install<S: StateWrite>(state: &mut S) {
    let client_id = ClientId::new(ClientType::new("07-tendermint".into()), 0).unwrap();
    let chain_id = ibc_types::core::connection::ChainId::new("counterparty".to_string(), 2);
    let height = IbcHeight::new(2, 8).unwrap();
    let proof_spec = ibc_proto::ics23::ProofSpec { leaf_spec: None, inner_spec: None, max_depth: 0, min_depth: 0, prehash_key_before_comparison: false };
    let client_state = ClientState::new(
        chain_id,
        TrustThreshold::TWO_THIRDS,
        Duration::from_secs(10 * 365 * 86_400),
        Duration::from_secs(20 * 365 * 86_400),
        Duration::from_secs(1),
        height,
        vec![proof_spec],
        vec![],
        AllowUpdate { after_expiry: true, after_misbehaviour: true },
        None,
    )
    .unwrap();
    state.put_client(&client_id, client_state);
    state.put_revision_number(2).unwrap();
    let timestamp = tendermint::Time::from_unix_timestamp(1_744_036_000, 0).unwrap();
    state.put_block_timestamp(timestamp).unwrap();
    let consensus_state = ConsensusState::new(MerkleRoot { hash: vec![1; 32] }, timestamp, tendermint::Hash::Sha256([2; 32]));
    // penumbra records the host height at which the consensus state was stored; it must be non-zero
    state.put_block_height(1).unwrap();
    state.put_verified_consensus_state::<AstriaHost>(height, client_id.clone(), consensus_state).await.unwrap();
    state.put_block_height(0).unwrap();
    let conn = ConnectionId::new(0);
    state.update_connection(&conn, ConnectionEnd { state: ConnectionState::Open, client_id, ..Default::default() });
    for (local, remote) in CHANNELS {
        state.put_channel(
            &ChannelId::new(local),
            &PortId::transfer(),
            ChannelEnd {
                state: ChannelState::Open,
                ordering: Order::Unordered,
                remote: ChannelCounterparty::new(PortId::transfer(), Some(ChannelId::new(remote))),
                connection_hops: vec![conn.clone()],
                version: ChannelVersion::new("ics20-1".to_string()),
                ..Default::default()
            },
        );
    }
}

#[derive(Clone, Debug)]
pub(super) struct PacketSpec {
    pub(super) handler: &'static str, // recv | timeout | ack_error | ack_success
    pub(super) local_channel: u64,
    pub(super) remote_channel: u64,
    pub(super) sequence: u64,
    pub(super) denom: String,
    pub(super) amount: String,
    pub(super) sender: String,
    pub(super) receiver: String,
    pub(super) memo: String,
    pub(super) class: String,
    pub(super) receiver_b64: Option<String>, // set when the receiver/sender string is a well-formed address of ours
}

impl PacketSpec {
    pub(super) fn to_json(&self) -> serde_json::Value {
        json!({"handler": self.handler, "local_channel": format!("channel-{}", self.local_channel), "remote_channel": format!("channel-{}", self.remote_channel),
            "sequence": self.sequence, "denom": self.denom, "amount": self.amount, "sender": self.sender, "receiver": self.receiver, "memo": self.memo, "class": self.class, "party_b64": self.receiver_b64})
    }

    fn packet(&self) -> Packet {
        let data = FungibleTokenPacketData {
            denom: self.denom.clone(),
            amount: self.amount.clone(),
            sender: self.sender.clone(),
            receiver: self.receiver.clone(),
            memo: self.memo.clone(),
        };
        let (port_a, chan_a, port_b, chan_b) = if self.handler == "recv" {
            // they are A (source), we are B
            (PortId::transfer(), ChannelId::new(self.remote_channel), PortId::transfer(), ChannelId::new(self.local_channel))
        } else {
            // our own packet coming back: we are A
            (PortId::transfer(), ChannelId::new(self.local_channel), PortId::transfer(), ChannelId::new(self.remote_channel))
        };
        Packet {
            sequence: Sequence(self.sequence),
            port_on_a: port_a,
            chan_on_a: chan_a,
            port_on_b: port_b,
            chan_on_b: chan_b,
            data: serde_json::to_vec(&data).unwrap(),
            timeout_height_on_b: TimeoutHeight::Never,
            timeout_timestamp_on_b: Timestamp { time: None },
        }
    }
}

/// Runs check + execute of the handler on `state` (a delta the caller applies only if this returns `Ok`).
pub(super) async fn run_handler<S: StateWrite>(state: &mut S, spec: &PacketSpec, tx_salt: u64) -> Result<(), String> {
    let mut id = [0u8; 32];
    id[..8].copy_from_slice(&tx_salt.to_le_bytes());
    id[8] = 0xCC;
    state.ephemeral_put_ibc_context(TransactionId::new(id), 0);
    let proof = MerkleProof { proofs: vec![] };
    let h = IbcHeight::new(2, 9).unwrap();
    match spec.handler {
        "recv" => {
            let msg = MsgRecvPacket { packet: spec.packet(), proof_commitment_on_a: proof, proof_height_on_a: h, signer: "relayer".into() };
            Ics20Transfer::recv_packet_check(&mut *state, &msg).await.map_err(|e| format!("check:{e:#}"))?;
            Ics20Transfer::recv_packet_execute(&mut *state, &msg).await.map_err(|e| format!("execute:{e:#}"))
        }
        "timeout" => {
            let msg = MsgTimeout { packet: spec.packet(), next_seq_recv_on_b: Sequence(1), proof_unreceived_on_b: proof, proof_height_on_b: h, signer: "relayer".into() };
            Ics20Transfer::timeout_packet_check(&mut *state, &msg).await.map_err(|e| format!("check:{e:#}"))?;
            Ics20Transfer::timeout_packet_execute(&mut *state, &msg).await.map_err(|e| format!("execute:{e:#}"))
        }
        _ => {
            let ack: Vec<u8> = if spec.handler == "ack_success" {
                br#"{"result":"AQ=="}"#.to_vec()
            } else {
                br#"{"error":"counterparty refused the transfer"}"#.to_vec()
            };
            let msg = MsgAcknowledgement { packet: spec.packet(), acknowledgement: ack, proof_acked_on_b: proof, proof_height_on_b: h, signer: "relayer".into() };
            Ics20Transfer::acknowledge_packet_check(&mut *state, &msg).await.map_err(|e| format!("check:{e:#}"))?;
            Ics20Transfer::acknowledge_packet_execute(&mut *state, &msg).await.map_err(|e| format!("execute:{e:#}"))
        }
    }
}

/// An outgoing withdrawal that was committed and is still in flight (no ack / timeout delivered yet).
#[derive(Clone, Debug)]
pub(super) struct InFlight {
    pub(super) local_channel: u64,
    pub(super) denom: String,
    pub(super) amount: u128,
    pub(super) sender: String, // the sequencer-side refund address as put into the packet
    pub(super) memo: String,
    pub(super) sequence: u64,
    pub(super) sender_b64: String,
}

pub(super) async fn gen_incoming<S: StateRead>(u: &Universe, rng: &mut ChaChaRng, state: &S, seq: u64) -> PacketSpec {
    let (local, remote) = CHANNELS[rng.gen_range(0..CHANNELS.len())];
    // what comes in
    let (denom, class_d): (String, &'static str) = match rng.gen_range(0..8) {
        0 | 1 => (format!("transfer/channel-{remote}/nria"), "returning_native"),
        2 => (format!("transfer/channel-{remote}/denom-a"), "returning_denom_a"),
        3 | 4 => ("utia".to_string(), "foreign_allowed"),
        5 => ("uatom".to_string(), "foreign_not_allowed"),
        6 => (format!("transfer/channel-{}/nria", remote + 1), "native_via_other_channel_prefix"),
        _ => (format!("transfer/channel-{remote}/transfer/channel-{local}/utia"), "returning_foreign_roundtrip"),
    };
    // to whom
    let mut bridges = vec![];
    for (i, a) in u.accts.iter().enumerate() {
        if state.is_a_bridge_account(&a.addr).await.unwrap_or(false) {
            bridges.push(i);
        }
    }
    let to_bridge = !bridges.is_empty() && rng.gen_bool(0.45);
    let mut party = None;
    let (receiver, memo, class_r): (String, String, &str) = if to_bridge {
        let b = bridges[rng.gen_range(0..bridges.len())];
        party = Some(u.accts[b].b64());
        let addr = u.accts[b].address().to_string();
        match rng.gen_range(0..4) {
            0 => (addr, "not json".to_string(), "bridge_bad_memo"),
            1 => (addr, String::new(), "bridge_empty_memo"),
            _ => (addr, serde_json::to_string(&Ics20TransferDeposit { rollup_deposit_address: "0xrollupdest".into() }).unwrap(), "bridge_good_memo"),
        }
    } else {
        let a = rng.gen_range(0..u.accts.len());
        party = Some(u.accts[a].b64());
        match rng.gen_range(0..8) {
            0 => {
                party = None;
                ("not-an-address".to_string(), String::new(), "bad_receiver")
            }
            1 => (astria_compat_address(&u.accts[a].addr).to_string(), String::new(), "plain_compat_prefix"),
            _ => (u.accts[a].address().to_string(), String::new(), "plain"),
        }
    };
    // a receive to a bridge with a good memo is usually aimed at the bridge's own asset, returning over this channel
    let mut denom = denom;
    let mut class_d = class_d;
    if class_r == "bridge_good_memo" && rng.gen_bool(0.7) {
        if let Some(pb) = party.as_ref().and_then(|p| u.accts.iter().find(|a| &a.b64() == p)) {
            if let Ok(basset) = state.get_bridge_account_ibc_asset(&pb.addr).await {
                if let Some(d) = u.assets.iter().find(|d| d.to_ibc_prefixed() == basset) {
                    let t = d.to_string();
                    if let Some(rest) = t.strip_prefix(&format!("transfer/channel-{local}/")) {
                        denom = rest.to_string();
                        class_d = "foreign_allowed";
                    } else {
                        denom = format!("transfer/channel-{remote}/{t}");
                        class_d = "returning_bridge_asset";
                    }
                }
            }
        }
    }
    let escrow = match denom.strip_prefix(&format!("transfer/channel-{remote}/")) {
        Some(rest) => match rest.parse::<Denom>() {
            Ok(d) => state.get_ibc_channel_balance(&ChannelId::new(local), &d).await.unwrap_or(0),
            Err(_) => 0,
        },
        None => 0,
    };
    let pick = if class_r == "bridge_good_memo" && rng.gen_bool(0.4) { 3 } else { rng.gen_range(0..10) };
    let (amount, class_a): (String, &str) = match pick {
        0 => ("0".into(), "zero"),
        1 => ("340282366920938463463374607431768211456".into(), "overflows_u128"),
        2 => (u128::MAX.to_string(), "u128_max"),
        3 => (escrow.saturating_add(1).to_string(), "escrow_plus_1"),
        4 => (escrow.to_string(), "exactly_escrow"),
        5 => ("12x".into(), "not_a_number"),
        _ => {
            let cap = if escrow > 0 { escrow } else { 1_000_000 };
            (rng.gen_range(1..=cap.min(10u128.pow(12))).to_string(), "ordinary")
        }
    };
    PacketSpec {
        handler: "recv",
        local_channel: local,
        remote_channel: remote,
        sequence: seq,
        denom,
        amount,
        sender: "counterparty1sender".into(),
        receiver,
        memo,
        class: format!("{class_d}|{class_r}|{class_a}"),
        receiver_b64: party,
    }
}

pub(super) fn gen_return(rng: &mut ChaChaRng, f: &InFlight) -> PacketSpec {
    let handler = ["timeout", "ack_error", "ack_success"][rng.gen_range(0..3)];
    let remote = CHANNELS.iter().find(|(l, _)| *l == f.local_channel).map(|(_, r)| *r).unwrap_or(7);
    PacketSpec {
        handler,
        local_channel: f.local_channel,
        remote_channel: remote,
        sequence: f.sequence,
        denom: f.denom.clone(),
        amount: f.amount.to_string(),
        sender: f.sender.clone(),
        receiver: "counterparty1receiver".into(),
        memo: f.memo.clone(),
        class: format!("own_packet|{handler}"),
        receiver_b64: Some(f.sender_b64.clone()),
    }
}
