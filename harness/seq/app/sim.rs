//! Nodes, roles, block driver, lab node and state dumps.
#![allow(clippy::pedantic, clippy::arithmetic_side_effects, dead_code, unused_imports)]

use std::{
    collections::{
        BTreeMap,
        HashMap,
    },
    sync::Arc,
};

use astria_core::{
    protocol::genesis::v1::GenesisAppState,
    upgrades::test_utils::UpgradesBuilder,
    Protobuf as _,
};
use bytes::Bytes;
use cnidarium::{
    StateDelta,
    StateRead,
    Storage,
};
use futures::StreamExt as _;
use rand::{
    Rng as _,
    RngCore as _,
    SeedableRng as _,
};
use rand_chacha::ChaChaRng;
use serde_json::json;
use sha2::Digest as _;
use tendermint::{
    abci,
    abci::types::CommitInfo,
    block::Height,
    Hash,
    Time,
};

use super::{
    ibc,
    gen,
    gen::{
        BuiltTx,
        Universe,
    },
    vlog,
    vlog::VLog,
};
// everything `app` has in scope, including its private items
use super::super::*;
use crate::{
    accounts::AddressBytes as _,
    bridge::StateReadExt as _,
    fees::StateReadExt as _,
    mempool::Mempool,
    service::mempool::check_tx,
    test_utils::Fixture,
};

pub(super) struct Node {
    pub(super) id: usize,
    pub(super) app: App,
    pub(super) storage: Storage,
}

pub(super) struct Sim {
    pub(super) log: Arc<VLog>,
    pub(super) rng: ChaChaRng,
    pub(super) hist: u64,
    pub(super) profile: String,
    pub(super) nodes: Vec<Node>,
    pub(super) lab: Node,
    pub(super) uni: Universe,
    pub(super) height: u64,
    pub(super) upgrades: (u64, u64),
    pub(super) last_lab_dump: BTreeMap<String, String>,
    pub(super) committed_txs: Vec<BuiltTx>,
    pub(super) current_built: Vec<BuiltTx>,
    pub(super) all_built: Vec<BuiltTx>,
    pub(super) in_flight: Vec<ibc::InFlight>,
    pub(super) packet_seq: u64,
    pub(super) ok: bool,
    /// validator updates returned by FinalizeBlock per height (CometBFT applies those of height h at h + 2)
    pub(super) val_updates: BTreeMap<u64, Vec<tendermint::validator::Update>>,
    pub(super) last_decided_round: u16,
    pub(super) stop_after_height: bool,
    pub(super) twin_must_process: Option<usize>,
}

fn short(e: &str) -> String {
    let s: String = e.chars().take(220).collect();
    s.replace('\n', " ")
}

fn build_upgrades(aspen: u64, blackburn: u64) -> astria_core::upgrades::v1::Upgrades {
    UpgradesBuilder::new().set_aspen(Some(aspen)).set_blackburn(Some(blackburn)).build()
}

pub(super) async fn dump_state<S: StateRead>(state: &S) -> BTreeMap<String, String> {
    let mut out = BTreeMap::new();
    let mut stream = Box::pin(state.prefix_raw(""));
    while let Some(item) = stream.next().await {
        let (k, v) = item.expect("prefix_raw item");
        out.insert(k, enc_val(&v));
    }
    let mut stream = Box::pin(state.nonverifiable_prefix_raw(b""));
    while let Some(item) = stream.next().await {
        let (k, v) = item.expect("nonverifiable_prefix_raw item");
        let key = match std::str::from_utf8(&k) {
            Ok(s) => format!("nv:{s}"),
            Err(_) => format!("nvx:{}", vlog::hex(&k)),
        };
        out.insert(key, enc_val(&v));
    }
    // ephemeral: block fees and cached deposits
    let mut fees: Vec<(String, u128)> = state.get_block_fees().into_iter().map(|(a, n)| (a.to_string(), n)).collect();
    fees.sort();
    for (a, n) in fees {
        out.insert(format!("~fees/{a}"), n.to_string());
    }
    let deposits = state.get_cached_block_deposits();
    let mut rollups: Vec<_> = deposits.keys().copied().collect();
    rollups.sort();
    for r in rollups {
        for (i, d) in deposits[&r].iter().enumerate() {
            out.insert(format!("~deposits/{r}/{i:04}"), deposit_json(d).to_string());
        }
    }
    out
}

pub(super) fn deposit_json(d: &astria_core::sequencerblock::v1::block::Deposit) -> serde_json::Value {
    json!({"bridge": base64_addr(&d.bridge_address.bytes()), "rollup": d.rollup_id.to_string(), "amount": d.amount.to_string(),
        "asset": d.asset.to_string(), "asset_ibc": d.asset.to_ibc_prefixed().to_string(), "dest": d.destination_chain_address,
        "src_tx": d.source_transaction_id.to_string(), "src_idx": d.source_action_index})
}

pub(super) fn base64_addr(b: &[u8]) -> String {
    use base64::prelude::*;
    BASE64_STANDARD.encode(b)
}

fn enc_val(v: &[u8]) -> String {
    if v.len() <= 96 {
        vlog::hex(v)
    } else {
        format!("#{}:{}", v.len(), vlog::hex(&sha2::Sha256::digest(v)[..12]))
    }
}

pub(super) fn digest_of(d: &BTreeMap<String, String>) -> String {
    let mut h = sha2::Sha256::new();
    for (k, v) in d {
        // the storage-version bookkeeping differs legitimately between nodes that were restarted / set up differently? no:
        // it is deterministic too, so everything is hashed.
        h.update(k.as_bytes());
        h.update([0]);
        h.update(v.as_bytes());
        h.update([1]);
    }
    vlog::hex(&h.finalize()[..16])
}

pub(super) fn diff_of(a: &BTreeMap<String, String>, b: &BTreeMap<String, String>) -> serde_json::Value {
    let mut m = serde_json::Map::new();
    for (k, v) in a {
        match b.get(k) {
            Some(w) if w == v => {}
            Some(w) => {
                m.insert(k.clone(), json!([v, w]));
            }
            None => {
                m.insert(k.clone(), json!([v, null]));
            }
        }
    }
    for (k, w) in b {
        if !a.contains_key(k) {
            m.insert(k.clone(), json!([null, w]));
        }
    }
    serde_json::Value::Object(m)
}

pub(super) fn events_json(events: &[abci::Event]) -> serde_json::Value {
    events
        .iter()
        .map(|e| {
            let attrs: serde_json::Map<String, serde_json::Value> = e
                .attributes
                .iter()
                .map(|a| (a.key_str().unwrap_or("?").to_string(), json!(a.value_str().unwrap_or("?"))))
                .collect();
            json!({"kind": e.kind, "attrs": attrs})
        })
        .collect()
}

fn tx_results_json(rs: &[abci::types::ExecTxResult]) -> serde_json::Value {
    rs.iter()
        .map(|r| json!({"code": r.code.value(), "events": events_json(&r.events), "log": short(&r.log)}))
        .collect()
}

fn validator_updates_json(v: &[tendermint::validator::Update]) -> serde_json::Value {
    v.iter().map(|u| json!({"pub_key": vlog::hex(&u.pub_key.to_bytes()), "power": u.power.value()})).collect()
}

impl Node {
    async fn new_uninit(id: usize, aspen: u64, blackburn: u64) -> Self {
        let fixture = Fixture::uninitialized(Some(build_upgrades(aspen, blackburn))).await;
        let (app, storage) = fixture.destructure();
        Self { id, app, storage }
    }

    /// Throw the `App` away and rebuild it from what is on disk (fresh mempool), like a process restart.
    async fn restart(&mut self, aspen: u64, blackburn: u64) {
        let metrics = self.app.metrics();
        let mempool = Mempool::new(metrics, 100, 100);
        let upgrades_handler = build_upgrades(aspen, blackburn).into();
        let ve_handler = vote_extension::Handler::new(None);
        let app = App::new(self.storage.latest_snapshot(), mempool, upgrades_handler, ve_handler, metrics).await.unwrap();
        self.app = app;
    }
}

#[derive(Clone)]
pub(super) struct BlockCtx {
    pub(super) height: u64,
    pub(super) round: u16,
    pub(super) time: Time,
    pub(super) proposer: tendermint::account::Id,
    pub(super) hash: [u8; 32],
    pub(super) txs: Vec<Bytes>,
    pub(super) max_tx_bytes: i64,
    /// the extended commit of the previous height as the proposer of this round holds it
    pub(super) eci: abci::types::ExtendedCommitInfo,
    /// evidence of misbehaviour carried by the block
    pub(super) misbehavior: Vec<abci::types::Misbehavior>,
    pub(super) next_validators_hash: Hash,
}

impl BlockCtx {
    fn last_commit(&self) -> CommitInfo {
        CommitInfo {
            round: self.eci.round,
            votes: self.eci.votes.iter().map(|v| abci::types::VoteInfo { validator: v.validator.clone(), sig_info: v.sig_info }).collect(),
        }
    }

    fn prepare_req(&self) -> abci::request::PrepareProposal {
        abci::request::PrepareProposal {
            max_tx_bytes: self.max_tx_bytes,
            txs: vec![],
            local_last_commit: Some(self.eci.clone()),
            misbehavior: self.misbehavior.clone(),
            height: Height::try_from(self.height).unwrap(),
            time: self.time,
            next_validators_hash: self.next_validators_hash,
            proposer_address: self.proposer,
        }
    }

    fn process_req(&self) -> abci::request::ProcessProposal {
        abci::request::ProcessProposal {
            txs: self.txs.clone(),
            proposed_last_commit: Some(self.last_commit()),
            misbehavior: self.misbehavior.clone(),
            hash: Hash::Sha256(self.hash),
            height: Height::try_from(self.height).unwrap(),
            time: self.time,
            next_validators_hash: self.next_validators_hash,
            proposer_address: self.proposer,
        }
    }

    fn finalize_req(&self) -> abci::request::FinalizeBlock {
        abci::request::FinalizeBlock {
            txs: self.txs.clone(),
            decided_last_commit: self.last_commit(),
            misbehavior: self.misbehavior.clone(),
            hash: Hash::Sha256(self.hash),
            height: Height::try_from(self.height).unwrap(),
            time: self.time,
            next_validators_hash: self.next_validators_hash,
            proposer_address: self.proposer,
        }
    }
}

fn block_hash(hist: u64, height: u64, round: u16, salt: u64) -> [u8; 32] {
    let mut h = sha2::Sha256::new();
    h.update(hist.to_le_bytes());
    h.update(height.to_le_bytes());
    h.update(round.to_le_bytes());
    h.update(salt.to_le_bytes());
    h.finalize().into()
}

pub(super) fn tx_ids(txs: &[Bytes]) -> Vec<String> {
    txs.iter().map(|t| vlog::hex(&sha2::Sha256::digest(t))).collect()
}

impl Sim {
    pub(super) async fn new(log: Arc<VLog>, seed: u64, hist: u64, profile: &str) -> Self {
        let mut rng = ChaChaRng::seed_from_u64(seed.wrapping_mul(0x9E37_79B9).wrapping_add(hist).wrapping_mul(0x2545_F491_4F6C_DD1D) ^ 0xC5);
        let aspen = rng.gen_range(1..=3u64);
        let blackburn = aspen + rng.gen_range(1..=2u64);
        let mut uni = Universe::generate(&mut rng, profile);
        uni.upgrades = (aspen, blackburn);
        let nnodes = 3;
        let mut nodes = vec![];
        for id in 0..nnodes {
            nodes.push(Node::new_uninit(id, aspen, blackburn).await);
        }
        let lab = Node::new_uninit(99, aspen, blackburn).await;
        let mut sim = Self {
            log,
            rng,
            hist,
            profile: profile.to_string(),
            nodes,
            lab,
            uni,
            height: 0,
            upgrades: (aspen, blackburn),
            last_lab_dump: BTreeMap::new(),
            committed_txs: vec![],
            current_built: vec![],
            all_built: vec![],
            in_flight: vec![],
            packet_seq: 0,
            val_updates: BTreeMap::new(),
            last_decided_round: 0,
            stop_after_height: false,
            twin_must_process: None,
            ok: true,
        };
        sim.init_chain().await;
        sim
    }

    /// DuplicateVote evidence against one validator of the genesis set (never against the last remaining one).
    fn make_evidence(&mut self, height: u64, time: Time) -> abci::types::Misbehavior {
        let nv = self.uni.validators.len();
        let i = self.rng.gen_range(0..nv);
        let addr = self.uni.validator_address(i);
        let total: u64 = self.uni.validators.iter().map(|(_, p)| u64::from(*p)).sum();
        abci::types::Misbehavior {
            kind: abci::types::MisbehaviorKind::DuplicateVote,
            validator: abci::types::Validator { address: addr.as_bytes().try_into().unwrap(), power: self.uni.validators[i].1.into() },
            height: Height::try_from(height.saturating_sub(1).max(1)).unwrap(),
            time,
            total_voting_power: total.try_into().unwrap(),
        }
    }

    fn all_nodes_mut(&mut self) -> Vec<&mut Node> {
        let mut v: Vec<&mut Node> = self.nodes.iter_mut().collect();
        v.push(&mut self.lab);
        v
    }

    async fn init_chain(&mut self) {
        let genesis = self.uni.genesis_app_state();
        let validators = self.uni.genesis_validators();
        let chain_id = genesis.chain_id().to_string();
        let uni_json = self.uni.to_json();
        let mut hashes = vec![];
        let extra = self.uni.clone();
        for node in self.all_nodes_mut() {
            let h = node
                .app
                .init_chain(node.storage.clone(), genesis.clone(), validators.clone(), chain_id.clone())
                .await
                .expect("init_chain");
            node.app.commit(node.storage.clone()).await.unwrap();
            // extra, deterministic setup that genesis cannot express (non-native balances, fee assets, IBC channels)
            let mut delta = node.app.new_state_delta();
            extra.extra_setup(&mut delta).await;
            node.app.apply_and_commit(delta, node.storage.clone()).await;
            hashes.push(vlog::hex(h.as_bytes()));
        }
        let dump = dump_state(&self.lab.storage.latest_snapshot()).await;
        self.log.ev(json!({"kind": "genesis", "hist": self.hist, "profile": self.profile, "aspen": self.upgrades.0,
            "blackburn": self.upgrades.1, "universe": uni_json, "init_hashes": hashes, "state": dump}));
        self.last_lab_dump = dump;
    }

    /// One height: generate + gossip transactions, optional abandoned rounds, the decided block on every node
    /// (each along its own legal call path), the lab replay, and the per-node post-commit digests.
    pub(super) async fn run_height(&mut self) {
        self.height += 1;
        let height = self.height;
        let hist = self.hist;
        let time = Time::from_unix_timestamp(1_744_036_762 + 2 * height as i64, 123_456_789).unwrap();
        let nn = self.nodes.len();

        // ---- 1. transactions, aimed using the committed state of node 0
        let snapshot = self.nodes[0].storage.latest_snapshot();
        let built = gen::generate_block_txs(&mut self.uni, &mut self.rng, &snapshot, &self.committed_txs, height, &self.profile).await;
        for b in &built {
            self.log.ev(b.to_json(hist, height));
            self.all_built.push(b.clone());
        }
        for b in &built {
            for n in 0..nn {
                if !self.rng.gen_bool(0.85) {
                    continue;
                }
                let node = &self.nodes[n];
                let st = node.storage.latest_snapshot();
                let mp = node.app.mempool();
                let outcome = check_tx(b.bytes.clone(), st, &mp, node.app.metrics()).await;
                let oc = format!("{outcome:?}");
                let class = oc.split(|c: char| !c.is_alphanumeric()).next().unwrap_or("").to_string();
                self.log.ev(json!({"kind": "check_tx", "hist": hist, "height": height, "node": n, "id": b.id, "outcome": class,
                    "detail": short(&oc)}));
            }
        }

        // ---- 2. rounds: earlier rounds are abandoned, the last one is decided
        let nrounds: u16 = match self.rng.gen_range(0..10) {
            0..=5 => 1,
            6..=8 => 2,
            _ => 3,
        };
        let proposer_addr: tendermint::account::Id = self.uni.validator_address(self.rng.gen_range(0..self.uni.validators.len()));
        // at an upgrade height the block must carry the upgrade change hashes next to the commitments: an environment whose byte limit
        // is below those mandatory items admits no valid block at all, which is not a situation the property speaks about
        let max_tx_bytes = if height == self.upgrades.0 || height == self.upgrades.1 { self.uni.max_tx_bytes.max(2_048) } else { self.uni.max_tx_bytes };
        let mut decided: Option<BlockCtx> = None;
        for round in 0..nrounds {
            let last = round + 1 == nrounds;
            let p = self.rng.gen_range(0..nn);
            // restart some node before this round
            if self.rng.gen_bool(0.08) {
                let r = self.rng.gen_range(0..nn);
                self.nodes[r].restart(self.upgrades.0, self.upgrades.1).await;
                self.log.ev(json!({"kind": "restart", "hist": hist, "height": height, "round": round, "node": r}));
            }
            let mut ctx = BlockCtx {
                height,
                round,
                time,
                proposer: proposer_addr,
                hash: block_hash(hist, height, round, 0),
                txs: vec![],
                max_tx_bytes,
                eci: abci::types::ExtendedCommitInfo { votes: vec![], round: 0u16.into() },
                misbehavior: vec![],
                next_validators_hash: Hash::default(),
            };
            // evidence of misbehaviour (profile `paths` only; the history ends after such a block because the application drops
            // the named validator from its own set while CometBFT's set - which the harness models for the votes - keeps it)
            // `validators` profile: evidence naming one or two validators of the genesis set (never all of them). From such a block on the
            // application's set and CometBFT's legitimately differ (C14 excludes these blocks), but the stored count must keep matching
            // the stored set; the history goes on
            if last && self.profile == "validators" && height >= 2 && self.rng.gen_bool(0.1) {
                let nv = self.uni.validators.len();
                let k = if nv >= 3 && self.rng.gen_bool(0.6) { 2 } else { 1 };
                if nv > k {
                    let first = self.rng.gen_range(0..nv);
                    let mut named = vec![];
                    for j in 0..k {
                        let i = (first + j) % nv;
                        let mut ev = self.make_evidence(height, time);
                        ev.validator = abci::types::Validator { address: self.uni.validator_address(i).as_bytes().try_into().unwrap(), power: self.uni.validators[i].1.into() };
                        named.push(vlog::hex(self.uni.validators[i].0.key.verification_key().as_ref()));
                        ctx.misbehavior.push(ev);
                    }
                    self.log.ev(json!({"kind": "evidence_block", "hist": hist, "height": height, "named": named}));
                }
            }
            if last && self.profile == "paths" && height >= 2 && self.rng.gen_bool(0.06) {
                ctx.misbehavior = vec![self.make_evidence(height, time)];
                self.stop_after_height = true;
            }
            ctx.eci = self.make_eci(height, p).await;
            // proposer prepares
            let res = {
                let node = &mut self.nodes[p];
                let storage = node.storage.clone();
                let req = ctx.prepare_req();
                vlog_guard_async(node.app.prepare_proposal(req, storage)).await
            };
            let txs = match res {
                Ok(Ok(resp)) => resp.txs,
                Ok(Err(e)) => {
                    self.log.ev(json!({"kind": "abci", "hist": hist, "height": height, "round": round, "node": p, "call": "prepare",
                        "result": format!("err:{}", short(&format!("{e:#}")))}));
                    self.ok = false;
                    return;
                }
                Err(pn) => {
                    self.log.ev(json!({"kind": "abci", "hist": hist, "height": height, "round": round, "node": p, "call": "prepare",
                        "result": format!("panic:{pn}")}));
                    self.ok = false;
                    return;
                }
            };
            ctx.txs = txs;
            self.log.ev(json!({"kind": "abci", "hist": hist, "height": height, "round": round, "node": p, "call": "prepare", "result": "ok",
                "decided": last, "block": vlog::hex(&ctx.hash[..8]), "max_tx_bytes": max_tx_bytes,
                "tx_lens": ctx.txs.iter().map(|t| t.len()).collect::<Vec<_>>(), "tx_ids": tx_ids(&ctx.txs)}));

            if !last {
                // an abandoned round: some nodes see the honest proposal, some a corrupted variant of it, some nothing
                for n in 0..nn {
                    let what = if n == p { self.rng.gen_range(0..2) } else { self.rng.gen_range(0..4) };
                    match what {
                        0 => {}
                        1 => {
                            self.process_on(n, &ctx, "abandoned_honest").await;
                        }
                        _ => {
                            let (bad, class) = gen::corrupt_proposal(&mut self.rng, &ctx.txs, &self.committed_txs);
                            let mut bctx = ctx.clone();
                            bctx.txs = bad;
                            bctx.hash = block_hash(hist, height, round, 7 + n as u64);
                            self.process_on(n, &bctx, &format!("abandoned_corrupt:{class}")).await;
                        }
                    }
                }
            } else {
                // "twin" of the proposer's own proposal: an equivocating proposer / a second instance of the same validator gets a
                // block decided that carries the same transactions but differs in one header field. The node that prepared the
                // original must not reuse its cached execution for it.
                if self.profile == "paths" && height >= 2 && self.rng.gen_bool(0.12) {
                    let original = ctx.clone();
                    let stop_before = self.stop_after_height;
                    let kind = self.rng.gen_range(0..4);
                    let what = match kind {
                        0 => {
                            ctx.time = Time::from_unix_timestamp(1_744_036_762 + 2 * height as i64 + 1, 5).unwrap();
                            "time"
                        }
                        1 => {
                            ctx.next_validators_hash = Hash::Sha256(block_hash(hist, height, round, 991));
                            "next_validators_hash"
                        }
                        2 => {
                            let other = self.uni.validator_address(self.rng.gen_range(0..self.uni.validators.len()));
                            ctx.proposer = other;
                            "proposer_address"
                        }
                        _ => {
                            if ctx.misbehavior.is_empty() {
                                ctx.misbehavior = vec![self.make_evidence(height, time)];
                            } else {
                                ctx.misbehavior.clear();
                            }
                            self.stop_after_height = true;
                            "misbehavior"
                        }
                    };
                    ctx.hash = block_hash(hist, height, round, 555);
                    // a block is only ever decided if validators accept it: the changed header field may invalidate a transaction the
                    // original proposer had legitimately included (evidence that removes a validator makes a validator removal in the
                    // block illegal, for instance). Probe the twin on another node as a proposal of its own round; if it is refused,
                    // that round is abandoned and the original proposal is decided instead.
                    let probe = (p + 1) % nn;
                    if self.process_on(probe, &ctx, "abandoned_twin_probe").await {
                        self.log.ev(json!({"kind": "twin_of_own_proposal", "hist": hist, "height": height, "round": round, "proposer_node": p, "differs_in": what}));
                        // make sure the node that prepared the original is among those that process the twin
                        self.twin_must_process = Some(p);
                    } else {
                        self.log.ev(json!({"kind": "twin_refused_by_validators", "hist": hist, "height": height, "round": round, "differs_in": what}));
                        ctx = original;
                        self.stop_after_height = stop_before;
                    }
                }
                decided = Some(ctx);
            }
        }
        let ctx = decided.unwrap();
        if self.profile == "proposals" {
            // what the honest proposal looks like (sizes, groups, sequenced bytes), then the mutation catalogue
            let snap = self.nodes[0].storage.latest_snapshot();
            let mut groups = vec![];
            let mut seq_bytes = 0usize;
            let mut user_bytes = 0usize;
            for t in &ctx.txs {
                if let Ok(c) = CheckedTransaction::new(t.clone(), &snap).await {
                    groups.push(format!("{:?}", c.group()));
                    seq_bytes += c.rollup_data_bytes().map(|(_, d)| d.len()).sum::<usize>();
                    user_bytes += t.len();
                }
            }
            self.log.ev(json!({"kind": "proposal_honest", "hist": hist, "height": height, "max_tx_bytes": ctx.max_tx_bytes,
                "total_bytes": ctx.txs.iter().map(|t| t.len()).sum::<usize>(), "user_tx_bytes": user_bytes, "sequenced_bytes": seq_bytes,
                "groups": groups, "n_items": ctx.txs.len(), "mempool_len": self.nodes[0].app.mempool().len().await}));
            let judge = self.rng.gen_range(0..nn);
            self.mutate_and_judge(&ctx, judge, &built).await;
        }

        // ---- 3. the decided block on every node along its own path
        let mut responses = vec![];
        for n in 0..nn {
            let mut path = self.rng.gen_range(0..10);
            if self.twin_must_process == Some(n) {
                path = 0;
            }
            // 0..=5 process+finalize ; 6..=8 finalize only (sync) ; 9 restart then finalize only
            if path == 9 {
                self.nodes[n].restart(self.upgrades.0, self.upgrades.1).await;
                self.log.ev(json!({"kind": "restart", "hist": hist, "height": height, "round": ctx.round, "node": n, "before": "finalize"}));
            }
            if path <= 5 {
                if !self.process_on(n, &ctx, "decided").await {
                    // an honest decided proposal rejected: recorded; the node still has to follow consensus
                }
            }
            let res = {
                let node = &mut self.nodes[n];
                let storage = node.storage.clone();
                vlog_guard_async(node.app.finalize_block(ctx.finalize_req(), storage)).await
            };
            match res {
                Ok(Ok(resp)) => {
                    let j = json!({"app_hash": vlog::hex(resp.app_hash.as_bytes()), "tx_results": tx_results_json(&resp.tx_results),
                        "validator_updates": validator_updates_json(&resp.validator_updates),
                        "consensus_param_updates": resp.consensus_param_updates.as_ref().map(|p| format!("{p:?}")),
                        "events": events_json(&resp.events)});
                    let digest = vlog::hex(&sha2::Sha256::digest(j.to_string().as_bytes())[..16]);
                    self.log.ev(json!({"kind": "abci", "hist": hist, "height": height, "round": ctx.round, "node": n, "call": "finalize",
                        "result": "ok", "path": path, "response_digest": digest, "response": if n == 0 { j } else { json!(null) },
                        "app_hash": vlog::hex(resp.app_hash.as_bytes()), "n_tx_results": resp.tx_results.len(), "n_txs": ctx.txs.len(),
                        "validator_updates": validator_updates_json(&resp.validator_updates)}));
                    responses.push(digest);
                    if n == 0 {
                        self.val_updates.insert(height, resp.validator_updates.clone());
                    }
                    let node = &mut self.nodes[n];
                    node.app.commit(node.storage.clone()).await.expect("commit");
                    let dump = dump_state(&node.storage.latest_snapshot()).await;
                    self.log.ev(json!({"kind": "post_commit", "hist": hist, "height": height, "node": n, "state_digest": digest_of(&dump),
                        "keys": dump.len()}));
                }
                Ok(Err(e)) => {
                    self.log.ev(json!({"kind": "abci", "hist": hist, "height": height, "round": ctx.round, "node": n, "call": "finalize",
                        "path": path, "result": format!("err:{}", short(&format!("{e:#}")))}));
                    self.ok = false;
                }
                Err(pn) => {
                    self.log.ev(json!({"kind": "abci", "hist": hist, "height": height, "round": ctx.round, "node": n, "call": "finalize",
                        "path": path, "result": format!("panic:{pn}")}));
                    self.ok = false;
                }
            }
        }
        self.last_decided_round = ctx.round;
        self.twin_must_process = None;
        // ---- 4. lab replay of the decided block
        self.current_built = built.clone();
        self.lab_block(&ctx).await;
        if !self.ok {
            return;
        }
        // remember what was committed (for replays)
        let included: std::collections::HashSet<String> = tx_ids(&ctx.txs).into_iter().collect();
        for b in built {
            if included.contains(&b.id) {
                for a in &b.actions {
                    if a["kind"] == "ics20_withdrawal" {
                        self.packet_seq += 1;
                        let chan: u64 = a["channel"].as_str().unwrap_or("channel-0").trim_start_matches("channel-").parse().unwrap_or(0);
                        let sender = if a["compat"].as_bool().unwrap_or(false) {
                            let addr: astria_core::primitive::v1::Address = a["return_str"].as_str().unwrap().parse().unwrap();
                            crate::test_utils::astria_compat_address(&addr.bytes()).to_string()
                        } else {
                            a["return_str"].as_str().unwrap().to_string()
                        };
                        self.in_flight.push(ibc::InFlight {
                            local_channel: chan,
                            denom: a["denom"].as_str().unwrap().to_string(),
                            amount: a["amount"].as_str().unwrap().parse().unwrap(),
                            sender,
                            memo: a["memo"].as_str().unwrap_or("").to_string(),
                            sequence: self.packet_seq,
                            sender_b64: a["return"].as_str().unwrap().to_string(),
                        });
                    }
                }
                self.committed_txs.push(b);
            }
        }
        if self.profile == "rollups" {
            self.serve_and_tamper(height).await;
        }
        if self.profile == "ibc" || self.profile == "mixed" || self.profile == "ledger" {
            self.run_packets().await;
        }
    }

    /// The extended commit of height - 1 as CometBFT would hand it to the proposer of `height`: votes of the validator set
    /// in force at height - 1 (genesis set folded with the updates returned up to height - 3), more than 2/3 of the power
    /// committing, every commit vote carrying a signed oracle vote extension with prices for a random subset of the pairs.
    async fn make_eci(&mut self, height: u64, node: usize) -> abci::types::ExtendedCommitInfo {
        use astria_core::generated::price_feed::abci::v2::OracleVoteExtension as RawOracleVoteExtension;
        use futures::TryStreamExt as _;
        use prost::Message as _;
        use tendermint::abci::types::{
            BlockSignatureInfo::Flag,
            ExtendedVoteInfo,
            Validator,
        };
        use tendermint::block::BlockIdFlag;
        use tendermint_proto::v0_38::types::CanonicalVoteExtension;

        use crate::{
            app::StateReadExt as _,
            authority::StateReadExt as _,
            oracles::price_feed::oracle::state_ext::StateReadExt as _,
        };
        let empty = abci::types::ExtendedCommitInfo { votes: vec![], round: 0u16.into() };
        if height < 3 || !matches!(self.profile.as_str(), "paths" | "mixed" | "proposals") {
            return empty;
        }
        let enabled = self.nodes[node].app.vote_extensions_enabled(Height::try_from(height).unwrap()).await.unwrap_or(false);
        if !enabled {
            return empty;
        }
        let snapshot = self.nodes[node].storage.latest_snapshot();
        let Ok(chain_id) = snapshot.get_chain_id().await else { return empty };
        let pairs: Vec<u64> = match snapshot.currency_pairs_with_ids().try_collect::<Vec<_>>().await {
            Ok(v) => v.into_iter().map(|p| p.id).collect(),
            Err(_) => vec![],
        };
        // CometBFT's validator set at height - 1
        let mut set: BTreeMap<[u8; 32], u64> = BTreeMap::new();
        for v in self.uni.genesis_validators() {
            set.insert(v.verification_key.to_bytes(), u64::from(v.power));
        }
        for (h, ups) in &self.val_updates {
            if h + 3 > height {
                continue;
            }
            for u in ups {
                let Ok(k) = <[u8; 32]>::try_from(u.pub_key.to_bytes().as_slice()) else { continue };
                if u.power.value() == 0 {
                    set.remove(&k);
                } else {
                    set.insert(k, u.power.value());
                }
            }
        }
        let total: u64 = set.values().sum();
        if total == 0 {
            return empty;
        }
        let round = self.last_decided_round;
        // who can commit: validators whose key the harness holds and which the application still knows
        let mut votes = vec![];
        let mut committed: u64 = 0;
        let mut plan = vec![];
        for (vk, power) in &set {
            let key = self.uni.validators.iter().find(|(a, _)| a.key.verification_key().to_bytes() == *vk).map(|(a, _)| a.key.clone());
            let addr = astria_core::crypto::VerificationKey::try_from(*vk).map(|k| *k.address_bytes()).unwrap_or([0; 20]);
            let known_to_app = snapshot.get_validator(&addr).await.ok().flatten().is_some();
            plan.push((addr, *power, key, known_to_app));
        }
        // drop some commit votes while more than 2/3 of the power still commits
        let can: u64 = plan.iter().filter(|p| p.2.is_some() && p.3).map(|p| p.1).sum();
        if u128::from(can) * 3 <= u128::from(total) * 2 {
            self.log.ev(json!({"kind": "eci_fallback", "hist": self.hist, "height": height, "why": "a validator the application no longer knows (or an unknown key) is needed for 2/3"}));
            return empty;
        }
        let mut absent: u64 = 0;
        for (addr, power, key, known) in plan {
            let may_skip = u128::from(can - absent - power) * 3 > u128::from(total) * 2;
            let commit = key.is_some() && known && !(may_skip && self.rng.gen_bool(0.25));
            if !commit {
                if key.is_some() && known {
                    absent += power;
                }
                let flag = if self.rng.gen_bool(0.5) { BlockIdFlag::Absent } else { BlockIdFlag::Nil };
                votes.push(ExtendedVoteInfo { validator: Validator { address: addr, power: (power as u32).into() }, sig_info: Flag(flag), extension_signature: None, vote_extension: Bytes::new() });
                continue;
            }
            let key = key.unwrap();
            let mut prices: BTreeMap<u64, Bytes> = BTreeMap::new();
            for id in &pairs {
                if self.rng.gen_bool(0.8) {
                    let p: i128 = match self.rng.gen_range(0..8) {
                        0 => 0,
                        1 => 1,
                        2 => i128::from(i64::MAX),
                        3 => 10i128.pow(30),
                        4 => -7,
                        _ => self.rng.gen_range(1..1_000_000_000i128),
                    };
                    prices.insert(*id, Bytes::copy_from_slice(&p.to_be_bytes()));
                }
            }
            let ext = RawOracleVoteExtension { prices: prices.into_iter().collect() }.encode_to_vec();
            let msg = CanonicalVoteExtension { extension: ext.clone(), height: (height - 1) as i64, round: i64::from(round), chain_id: chain_id.to_string() }.encode_length_delimited_to_vec();
            let sig: tendermint::Signature = key.sign(&msg).to_bytes().to_vec().try_into().unwrap();
            committed += power;
            votes.push(ExtendedVoteInfo { validator: Validator { address: addr, power: (power as u32).into() }, sig_info: Flag(BlockIdFlag::Commit), extension_signature: Some(sig), vote_extension: ext.into() });
        }
        self.log.ev(json!({"kind": "eci", "hist": self.hist, "height": height, "votes": votes.len(), "committed_power": committed, "total_power": total, "pairs": pairs.len(), "round": round}));
        abci::types::ExtendedCommitInfo { votes, round: round.into() }
    }

    /// Between two heights: deliver IBC packets (incoming transfers; ack / time-out of our own in-flight packets) through
    /// the `Ics20Transfer` handlers on every node identically, each as its own committed system transaction. The lab
    /// records the full-state diff of the handler.
    async fn run_packets(&mut self) {
        let n = self.rng.gen_range(0..=3);
        for _ in 0..n {
            let spec = if !self.in_flight.is_empty() && self.rng.gen_bool(0.4) {
                let k = self.rng.gen_range(0..self.in_flight.len());
                let f = self.in_flight.remove(k);
                ibc::gen_return(&mut self.rng, &f)
            } else {
                self.packet_seq += 1;
                let snap = self.lab.storage.latest_snapshot();
                ibc::gen_incoming(&self.uni, &mut self.rng, &snap, self.packet_seq).await
            };
            let salt = self.packet_seq * 1000 + self.height;
            // lab first, with observation
            let before = self.last_lab_dump.clone();
            let mut results = vec![];
            {
                let node = &mut self.lab;
                let mut delta = node.app.new_state_delta();
                let res = vlog_guard_async(ibc::run_handler(&mut delta, &spec, salt)).await;
                let after = dump_state(&delta).await;
                let (result, applied) = match &res {
                    Ok(Ok(())) => ("ok".to_string(), true),
                    Ok(Err(e)) => (format!("err:{}", short(e)), false),
                    Err(p) => (format!("panic:{p}"), false),
                };
                let mut events = vec![];
                if applied {
                    events = node.app.apply(delta);
                    node.app.prepare_commit(node.storage.clone(), Vec::new()).await.expect("prepare_commit");
                    node.app.commit(node.storage.clone()).await.expect("commit");
                } else {
                    drop(delta);
                }
                let committed = dump_state(&node.storage.latest_snapshot()).await;
                let base = if applied { strip_ephemeral(&after) } else { before.clone() };
                self.log.ev(json!({"kind": "lab_packet", "hist": self.hist, "height": self.height, "packet": spec.to_json(), "result": result,
                    "applied": applied, "events": events_json(&events), "diff": diff_of(&before, &after), "commit_diff": diff_of(&base, &committed),
                    "state_digest": digest_of(&committed)}));
                self.last_lab_dump = committed;
                results.push(result);
            }
            for i in 0..self.nodes.len() {
                let node = &mut self.nodes[i];
                let mut delta = node.app.new_state_delta();
                let res = vlog_guard_async(ibc::run_handler(&mut delta, &spec, salt)).await;
                let result = match &res {
                    Ok(Ok(())) => "ok".to_string(),
                    Ok(Err(e)) => format!("err:{}", short(e)),
                    Err(p) => format!("panic:{p}"),
                };
                if result == "ok" {
                    let _ = node.app.apply(delta);
                    node.app.prepare_commit(node.storage.clone(), Vec::new()).await.expect("prepare_commit");
                    node.app.commit(node.storage.clone()).await.expect("commit");
                } else {
                    drop(delta);
                }
                let dump = dump_state(&node.storage.latest_snapshot()).await;
                self.log.ev(json!({"kind": "packet_commit", "hist": self.hist, "height": self.height, "node": i, "result": result,
                    "state_digest": digest_of(&dump)}));
                results.push(result);
            }
        }
    }

    pub(super) async fn process_on(&mut self, n: usize, ctx: &BlockCtx, class: &str) -> bool {
        let res = {
            let node = &mut self.nodes[n];
            let storage = node.storage.clone();
            vlog_guard_async(node.app.process_proposal(ctx.process_req(), storage)).await
        };
        let (result, ok) = match res {
            Ok(Ok(())) => ("ok".to_string(), true),
            Ok(Err(e)) => (format!("err:{}", short(&format!("{e:#}"))), false),
            Err(p) => (format!("panic:{p}"), false),
        };
        self.log.ev(json!({"kind": "abci", "hist": self.hist, "height": ctx.height, "round": ctx.round, "node": n, "call": "process",
            "class": class, "block": vlog::hex(&ctx.hash[..8]), "result": result}));
        ok
    }

    /// Replays the decided block on the lab node through the private steps of `finalize_block` (non-cached path),
    /// recording the full-state diff around every transaction, and trial-executing built-to-fail transactions on a
    /// fork of the intermediate state.
    async fn lab_block(&mut self, ctx: &BlockCtx) {
        let hist = self.hist;
        let height = ctx.height;
        let storage = self.lab.storage.clone();
        let fb = ctx.finalize_req();
        let app = &mut self.lab.app;
        app.update_state_for_new_round(&storage);
        let uses_data_item_enum = app.uses_data_item_enum(fb.height);
        let expanded = if uses_data_item_enum {
            let with_eci = app.vote_extensions_enabled(fb.height).await.expect("vote_extensions_enabled");
            ExpandedBlockData::new_from_typed_data(&fb.txs, with_eci)
        } else {
            ExpandedBlockData::new_from_untyped_data(&fb.txs)
        };
        let expanded = match expanded {
            Ok(e) => e,
            Err(e) => {
                self.log.ev(json!({"kind": "lab_error", "hist": hist, "height": height, "stage": "expand", "err": short(&format!("{e:#}"))}));
                self.ok = false;
                return;
            }
        };
        // prices of the extended commit are applied after the block's transactions and end-of-block handling, as
        // finalize_block does on every call path
        let eci_for_prices = expanded.extended_commit_info_with_proof.clone();
        let block_data = BlockData {
            misbehavior: fb.misbehavior.clone(),
            height: fb.height,
            time: fb.time,
            next_validators_hash: fb.next_validators_hash,
            proposer_address: fb.proposer_address,
        };
        let hashes = match app.pre_execute_transactions(block_data).await {
            Ok(h) => h,
            Err(e) => {
                self.log.ev(json!({"kind": "lab_error", "hist": hist, "height": height, "stage": "pre_execute", "err": short(&format!("{e:#}"))}));
                self.ok = false;
                return;
            }
        };
        if let Err(e) = ensure_upgrade_change_hashes_as_expected(&expanded, hashes.as_ref()) {
            self.log.ev(json!({"kind": "lab_error", "hist": hist, "height": height, "stage": "upgrade_hashes", "err": short(&format!("{e:#}"))}));
            self.ok = false;
            return;
        }
        let begin = dump_state(app.state()).await;
        self.log.ev(json!({"kind": "lab_begin", "hist": hist, "height": height, "diff": diff_of(&self.last_lab_dump, &begin),
            "upgrade_hashes": hashes.len()}));
        let mut cur = begin;
        let user_txs = match construct_checked_txs(&expanded.user_submitted_transactions, app.state()).await {
            Ok(t) => t,
            Err(e) => {
                self.log.ev(json!({"kind": "lab_error", "hist": hist, "height": height, "stage": "construct", "err": short(&format!("{e:#}"))}));
                self.ok = false;
                return;
            }
        };
        let mut executed: Vec<ExecutedTransaction> = vec![];
        let ntx = user_txs.len();
        for (idx, tx) in user_txs.into_iter().enumerate() {
            // ---- trials on a fork of the intermediate state
            // a transaction that already executed earlier in this block, executed again through the very same
            // CheckedTransaction (constructed against the block-start state): must fail on its nonce and change nothing
            if !executed.is_empty() && self.rng.gen_bool(0.35) {
                let k = self.rng.gen_range(0..executed.len());
                let again: Arc<CheckedTransaction> = executed[k].tx.clone();
                let rid = again.id().to_string();
                let mut txj = match self.current_built.iter().chain(self.committed_txs.iter()).find(|b| b.id == rid) {
                    Some(b) => b.to_json(hist, height),
                    None => json!({"id": rid, "signer": 0, "nonce": again.nonce(), "actions": [], "unknown_signer": true}),
                };
                txj["intent"] = json!("trial:replay_executed_in_block");
                let fork = Arc::get_mut(&mut app.state).expect("unique state").fork();
                let saved = std::mem::replace(&mut app.state, Arc::new(fork));
                let saved_recost = app.recost_mempool;
                let res = vlog_guard_async(app.execute_transaction(again)).await;
                let after = dump_state(app.state()).await;
                let trial_state = std::mem::replace(&mut app.state, saved);
                drop(trial_state);
                app.recost_mempool = saved_recost;
                let (result, events) = match res {
                    Ok(Ok(ev)) => ("ok".to_string(), events_json(&ev)),
                    Ok(Err(e)) => (format!("err:{}", short(&format!("{e:#}"))), json!([])),
                    Err(p) => (format!("panic:{p}"), json!([])),
                };
                self.log.ev(json!({"kind": "lab_trial", "hist": hist, "height": height, "at": idx, "n": 99, "tx": txj,
                    "result": result, "events": events, "diff": diff_of(&cur, &after), "replay_of_executed": true}));
            }
            let ntrials = if self.rng.gen_bool(0.7) { self.rng.gen_range(1..=3) } else { 0 };
            for t in 0..ntrials {
                let Some(trial) = gen::build_trial_tx(&mut self.uni, &mut self.rng, app.state(), &self.committed_txs, &executed_ids(&executed), height).await else {
                    continue;
                };
                let bytes = trial.bytes.clone();
                let checked = match CheckedTransaction::new(bytes, app.state()).await {
                    Ok(c) => Arc::new(c),
                    Err(e) => {
                        // refused at construction: that is a refusal without any execution; recorded for C02/C03 coverage
                        self.log.ev(json!({"kind": "lab_trial", "hist": hist, "height": height, "at": idx, "n": t, "tx": trial.to_json(hist, height),
                            "result": format!("refused:{}", short(&format!("{e:#}")))}));
                        continue;
                    }
                };
                let fork = Arc::get_mut(&mut app.state).expect("unique state").fork();
                let saved = std::mem::replace(&mut app.state, Arc::new(fork));
                let saved_recost = app.recost_mempool;
                let res = vlog_guard_async(app.execute_transaction(checked)).await;
                let after = dump_state(app.state()).await;
                let trial_state = std::mem::replace(&mut app.state, saved);
                drop(trial_state);
                app.recost_mempool = saved_recost;
                let (result, events) = match res {
                    Ok(Ok(ev)) => ("ok".to_string(), events_json(&ev)),
                    Ok(Err(e)) => (format!("err:{}", short(&format!("{e:#}"))), json!([])),
                    Err(p) => (format!("panic:{p}"), json!([])),
                };
                self.log.ev(json!({"kind": "lab_trial", "hist": hist, "height": height, "at": idx, "n": t, "tx": trial.to_json(hist, height),
                    "result": result, "events": events, "diff": diff_of(&cur, &after)}));
            }
            // ---- the decided transaction itself
            let id = tx.id().to_string();
            let res = vlog_guard_async(app.execute_transaction(tx.clone())).await;
            let after = dump_state(app.state()).await;
            let (result, events) = match &res {
                Ok(Ok(ev)) => ("ok".to_string(), events_json(ev)),
                Ok(Err(e)) => (format!("err:{}", short(&format!("{e:#}"))), json!([])),
                Err(p) => (format!("panic:{p}"), json!([])),
            };
            self.log.ev(json!({"kind": "lab_tx", "hist": hist, "height": height, "idx": idx, "of": ntx, "id": id,
                "signer": base64_addr(tx.address_bytes()), "nonce": tx.nonce(), "result": result, "events": events,
                "diff": diff_of(&cur, &after)}));
            cur = after;
            match res {
                Ok(Ok(events)) => executed.push(ExecutedTransaction { tx, exec_result: abci::types::ExecTxResult { events, ..Default::default() } }),
                Ok(Err(CheckedTransactionExecutionError::CheckedAction(error @ CheckedActionExecutionError::NonFatalExecution { .. }))) => {
                    let log = eyre::Report::new(error).wrap_err("transaction failed execution").to_string();
                    app.mempool.remove_tx_invalid(tx.clone(), RemovalReason::FailedExecution(log.clone())).await;
                    executed.push(ExecutedTransaction {
                        tx,
                        exec_result: abci::types::ExecTxResult {
                            code: abci::Code::Err(AbciErrorCode::TRANSACTION_FAILED_EXECUTION.value()),
                            log,
                            info: "transaction failed execution".to_string(),
                            ..Default::default()
                        },
                    });
                }
                _ => {}
            }
        }
        if let Err(e) = app.post_execute_transactions(fb.hash, fb.height, fb.time, fb.proposer_address, expanded, executed).await {
            self.log.ev(json!({"kind": "lab_error", "hist": hist, "height": height, "stage": "post_execute", "err": short(&format!("{e:#}"))}));
            self.ok = false;
            return;
        }
        if let Some(eci) = &eci_for_prices {
            let mut state_tx: StateDelta<Arc<StateDelta<cnidarium::Snapshot>>> = StateDelta::new(app.state.clone());
            if let Err(e) = vote_extension::apply_prices_from_vote_extensions(&mut state_tx, eci.extended_commit_info(), fb.time.into(), fb.height.value()).await {
                self.log.ev(json!({"kind": "lab_error", "hist": hist, "height": height, "stage": "apply_prices", "err": short(&format!("{e:#}"))}));
                self.ok = false;
                return;
            }
            let _ = app.apply(state_tx);
        }
        let end = dump_state(app.state()).await;
        let PostTransactionExecutionResult { tx_results, validator_updates, .. } =
            app.state.object_get(POST_TRANSACTION_EXECUTION_RESULT_KEY).expect("post tx execution result");
        let app_hash = match app.prepare_commit(storage.clone(), tx_results).await {
            Ok(h) => h,
            Err(e) => {
                self.log.ev(json!({"kind": "lab_error", "hist": hist, "height": height, "stage": "prepare_commit", "err": short(&format!("{e:#}"))}));
                self.ok = false;
                return;
            }
        };
        app.commit(storage.clone()).await.expect("lab commit");
        let committed = dump_state(&storage.latest_snapshot()).await;
        let stored_validators = stored_validators_json(&storage.latest_snapshot()).await;
        self.log.ev(json!({"kind": "lab_end", "hist": hist, "height": height, "stored_validators": stored_validators, "end_diff": diff_of(&cur, &end),
            "commit_diff": diff_of(&strip_ephemeral(&end), &committed),
            "app_hash": vlog::hex(app_hash.as_bytes()), "state_digest": digest_of(&committed),
            "validator_updates": validator_updates_json(&validator_updates)}));
        self.last_lab_dump = committed;
    }
}

/// What the application itself stores as the validator set (both storage formats) and the stored count.
async fn stored_validators_json<S: StateRead>(state: &S) -> serde_json::Value {
    use crate::authority::StateReadExt as _;
    use futures::TryStreamExt as _;
    let vj = |v: &astria_core::protocol::transaction::v1::action::ValidatorUpdate| json!({"vk": vlog::hex(v.verification_key.as_ref()), "power": v.power, "name": v.name.to_string()});
    let post: Vec<serde_json::Value> = match state.get_validators().try_collect::<Vec<_>>().await {
        Ok(v) => v.iter().map(vj).collect(),
        Err(e) => vec![json!({"error": short(&format!("{e:#}"))})],
    };
    let pre = match state.pre_aspen_get_validator_set().await {
        Ok(set) => json!(set.updates().map(vj).collect::<Vec<_>>()),
        Err(_) => json!(null),
    };
    let count = match state.get_validator_count().await {
        Ok(c) => json!(c),
        Err(_) => json!(null),
    };
    json!({"post_aspen_entries": post, "pre_aspen_set": pre, "count": count})
}

fn strip_ephemeral(d: &BTreeMap<String, String>) -> BTreeMap<String, String> {
    d.iter().filter(|(k, _)| !k.starts_with('~')).map(|(k, v)| (k.clone(), v.clone())).collect()
}

fn executed_ids(executed: &[ExecutedTransaction]) -> Vec<Arc<CheckedTransaction>> {
    executed.iter().map(|e| e.tx.clone()).collect()
}

/// `catch_unwind` for futures of the code under test: a panic becomes `Err(location message)`.
pub(super) async fn vlog_guard_async<T>(fut: impl std::future::Future<Output = T>) -> Result<T, String> {
    use futures::FutureExt as _;
    vlog::install_panic_hook();
    match std::panic::AssertUnwindSafe(fut).catch_unwind().await {
        Ok(v) => Ok(v),
        Err(_) => Err(vlog::take_last_panic().unwrap_or_else(|| "?".into())),
    }
}

pub(super) async fn run_from_env() {
    let profile = std::env::var("VERIF_PROFILE").unwrap_or_else(|_| "mixed".to_string());
    let log = Arc::new(VLog::open(&format!("chain-{profile}")));
    let (shard, shards) = vlog::shard();
    let histories = vlog::env_u64("VERIF_HISTORIES", 2);
    let blocks = vlog::env_u64("VERIF_BLOCKS", 12);
    for k in 0..histories {
        let hist = shard + k * shards;
        let mut sim = Sim::new(log.clone(), vlog::seed(), hist, &profile).await;
        for _ in 0..blocks {
            sim.run_height().await;
            if !sim.ok || sim.stop_after_height {
                break;
            }
        }
        log.ev(json!({"kind": "hist_end", "hist": hist, "heights": sim.height, "completed": sim.ok}));
        log.flush();
    }
    log.end();
}
