"""Shared plumbing for /verif/check: build, run (sharded, watchdogged), event logs, verdicts, evidence.

Verdict discipline (DESIGN.md section 1): held (exit 0) / violated (exit 1 + VIOLATION line) / known finding
(exit 0 + KNOWN-FINDING line) / inconclusive (exit 2 + INCONCLUSIVE line, never a VIOLATION line).
"""
import fcntl
import hashlib
import json
import os
import subprocess
import sys
import time

VERIF = os.path.dirname(os.path.dirname(os.path.abspath(__file__)))
REPO = os.environ.get("VERIF_REPO", "/repo")
TARGET = os.environ.get("VERIF_TARGET", os.path.join(VERIF, "target"))
WORK = os.path.join(VERIF, "work")
EVIDENCE = os.path.join(VERIF, "evidence")
NCPU = os.cpu_count() or 4


class Inconclusive(Exception):
    pass


def _env_base():
    env = dict(os.environ)
    env["CARGO_TARGET_DIR"] = TARGET
    env["CARGO_NET_OFFLINE"] = "true"
    # never let an inherited RUSTFLAGS replace /repo/.cargo/config.toml's build.rustflags
    env.pop("RUSTFLAGS", None)
    env.setdefault("RUST_BACKTRACE", "0")
    return env


def _locked_cargo(cmd, cwd, log_path, timeout):
    """Run a cargo command holding a global lock so concurrent checks do not interleave builds."""
    os.makedirs(TARGET, exist_ok=True)
    with open(os.path.join(TARGET, ".verif-build.lock"), "w") as lock:
        fcntl.flock(lock, fcntl.LOCK_EX)
        with open(log_path, "w") as log:
            try:
                p = subprocess.run(cmd, cwd=cwd, env=_env_base(), stdout=subprocess.PIPE, stderr=log,
                                   timeout=timeout)
            except subprocess.TimeoutExpired:
                raise Inconclusive("build timed out: " + " ".join(cmd))
    return p


def _parse_executables(stdout, want_test=None):
    exes = []
    for line in stdout.decode("utf-8", "replace").splitlines():
        if not line.startswith("{"):
            continue
        try:
            m = json.loads(line)
        except ValueError:
            continue
        if m.get("reason") == "compiler-artifact" and m.get("executable"):
            exes.append((m["target"]["name"], m["target"]["kind"], m["profile"].get("test", False), m["executable"]))
    return exes


def build_crate_tests(crate, workdir, release=False, timeout=3600):
    """Build the lib test binary of an in-repo crate with feature `verif` from /repo's working tree."""
    cmd = ["cargo", "test", "--offline", "--no-run", "--lib", "-p", crate, "--features", "verif",
           "--message-format=json"]
    if release:
        cmd.insert(2, "--release")
    log = os.path.join(workdir, "build-%s%s.log" % (crate, "-release" if release else ""))
    p = _locked_cargo(cmd, REPO, log, timeout)
    if p.returncode != 0:
        raise Inconclusive("build of %s failed (see %s)" % (crate, log))
    exes = [e for e in _parse_executables(p.stdout) if e[2]]
    if not exes:
        raise Inconclusive("no test executable reported for " + crate)
    return exes[-1][3]


def build_crate_bin(crate, bin_name, workdir, timeout=3600):
    cmd = ["cargo", "build", "--offline", "-p", crate, "--bin", bin_name, "--message-format=json"]
    log = os.path.join(workdir, "build-bin-%s.log" % bin_name)
    p = _locked_cargo(cmd, REPO, log, timeout)
    if p.returncode != 0:
        raise Inconclusive("build of %s failed (see %s)" % (bin_name, log))
    exes = [e for e in _parse_executables(p.stdout) if e[0] == bin_name and not e[2]]
    if not exes:
        raise Inconclusive("no executable reported for " + bin_name)
    return exes[-1][3]


def build_ext(package, workdir, release=False, timeout=1800):
    """Build a binary of the external harness workspace /verif/harness/ext (path-deps into /repo)."""
    ext = os.path.join(VERIF, "harness", "ext")
    # keep the lock file in step with /repo's (offline resolution must succeed)
    cmd = ["cargo", "build", "--offline", "-p", package, "--message-format=json"]
    if release:
        cmd.insert(2, "--release")
    log = os.path.join(workdir, "build-%s%s.log" % (package, "-release" if release else ""))
    p = _locked_cargo(cmd, ext, log, timeout)
    if p.returncode != 0:
        raise Inconclusive("build of %s failed (see %s)" % (package, log))
    exes = [e for e in _parse_executables(p.stdout) if e[0] == package]
    if not exes:
        raise Inconclusive("no executable reported for " + package)
    return exes[-1][3]


def run_shards(argv_for_shard, nshards, workdir, env_extra=None, timeout=1800, tag="run", max_parallel=None):
    """Run nshards processes in parallel. argv_for_shard(i) -> (argv, env_dict). Returns list of dicts.

    A non-zero exit / timeout of a shard is reported to the caller (it decides: harness error = inconclusive)."""
    max_parallel = max_parallel or NCPU
    pending = list(range(nshards))
    running = {}
    results = [None] * nshards
    t0 = time.time()
    while pending or running:
        while pending and len(running) < max_parallel:
            i = pending.pop(0)
            argv, env_s = argv_for_shard(i)
            env = _env_base()
            env.update(env_extra or {})
            env.update(env_s or {})
            out = open(os.path.join(workdir, "%s-%03d.stdout" % (tag, i)), "w")
            p = subprocess.Popen(argv, env=env, stdout=out, stderr=subprocess.STDOUT, cwd=workdir)
            running[i] = (p, out, time.time())
        time.sleep(0.05)
        for i in list(running):
            p, out, ts = running[i]
            rc = p.poll()
            if rc is None and time.time() - ts > timeout:
                p.kill()
                p.wait()
                rc = "timeout"
            if rc is not None:
                out.close()
                results[i] = {"shard": i, "rc": rc, "stdout": out.name, "wall_s": time.time() - ts}
                del running[i]
    return results


def read_events(workdir, prefix="events"):
    """Yield events from all <prefix>*.jsonl in workdir, in file order then line order."""
    names = sorted(n for n in os.listdir(workdir) if n.startswith(prefix) and n.endswith(".jsonl"))
    for n in names:
        with open(os.path.join(workdir, n)) as f:
            for ln, line in enumerate(f):
                line = line.strip()
                if not line:
                    continue
                try:
                    ev = json.loads(line)
                except ValueError:
                    # a torn last line of a killed shard is a harness matter, not a violation
                    raise Inconclusive("unparsable event log line %s:%d" % (n, ln + 1))
                ev["_file"] = n
                yield ev


class Verdict:
    """Collects what a checker observed; turned into exit code + evidence by finish()."""

    def __init__(self, prop, tier, seed, level="exploration"):
        self.prop, self.tier, self.seed, self.level = prop, tier, seed, level
        self.t0 = time.time()
        self.evaluations = 0
        self.cells = set()          # distinct non-trivial coverage cells
        self.samples = []
        self.must_see = {}          # name -> [count, minimum]
        self.violations = []        # {signature, what, witness}
        self.rule = ""
        self.assumptions = []
        self.extra = {}
        self.exhaustive = None
        self.inconclusive = []

    def need(self, name, minimum):
        self.must_see.setdefault(name, [0, minimum])
        self.must_see[name][1] = minimum

    def saw(self, name, n=1):
        self.must_see.setdefault(name, [0, 0])
        self.must_see[name][0] += n

    def cell(self, *parts):
        self.cells.add("|".join(str(p) for p in parts))

    def sample(self, s, limit=5):
        if len(self.samples) < limit:
            self.samples.append(s)

    def violate(self, signature, what, witness=None):
        # keep at most a few witnesses per signature, count the rest
        same = [v for v in self.violations if v["signature"] == signature]
        if len(same) < 3:
            self.violations.append({"signature": signature, "what": what, "witness": witness})
        else:
            same[0]["more"] = same[0].get("more", 0) + 1


def load_known_findings():
    path = os.path.join(VERIF, "known_findings.json")
    if not os.path.exists(path):
        return []
    with open(path) as f:
        return json.load(f).get("findings", [])


def finish(v, workdir):
    os.makedirs(EVIDENCE, exist_ok=True)
    known = [k for k in load_known_findings() if k.get("property") == v.prop and k.get("status") == "known"]
    known_sigs = {k["signature"]: k for k in known}
    new, matched = [], {}
    for viol in v.violations:
        if viol["signature"] in known_sigs:
            matched.setdefault(viol["signature"], []).append(viol)
        else:
            new.append(viol)
    short = [name for name, (c, m) in v.must_see.items() if c < m]
    if short and not new:
        for name in short:
            v.inconclusive.append("must-see '%s' = %d < %d" % (name, v.must_see[name][0], v.must_see[name][1]))
    replay_paths = []
    for n, viol in enumerate(new):
        rp = os.path.join(workdir, "replay-%d.json" % n)
        with open(rp, "w") as f:
            json.dump({"property": v.prop, "seed": v.seed, "tier": v.tier, "signature": viol["signature"],
                       "what": viol["what"], "witness": viol["witness"]}, f, indent=1, default=str)
        replay_paths.append(rp)
    cov = {
        "evaluations": int(v.evaluations),
        "distinct_nontrivial": len(v.cells),
        "rule": v.rule,
        "samples": v.samples if v.samples else ["(none recorded)"],
        "must_see": {k: {"seen": c, "min": m} for k, (c, m) in sorted(v.must_see.items())},
        "cells_sample": sorted(v.cells)[:40],
        "known_findings_matched": sorted(matched),
        "inconclusive_reasons": v.inconclusive,
    }
    if v.exhaustive is not None:
        cov["exhaustive"] = bool(v.exhaustive)
    cov.update(v.extra)
    ev = {
        "property_id": v.prop, "tier": v.tier, "seed": int(v.seed), "level": v.level, "coverage": cov,
        "assumptions": v.assumptions, "wall_s": round(time.time() - v.t0, 2), "violations": len(new),
    }
    with open(os.path.join(EVIDENCE, v.prop + ".json"), "w") as f:
        json.dump(ev, f, indent=1, default=str)
        f.write("\n")
    for sig in sorted(matched):
        print("KNOWN-FINDING: property=%s %s [%s] (%d witnesses this run)" %
              (v.prop, known_sigs[sig].get("what", ""), sig, len(matched[sig]) + matched[sig][0].get("more", 0)))
    if new:
        for viol, rp in zip(new, replay_paths):
            print("  violated: [%s] %s" % (viol["signature"], viol["what"]))
            print("VIOLATION property=%s replay=%s" % (v.prop, rp))
        sys.stdout.flush()
        return 1
    if v.inconclusive:
        for r in v.inconclusive:
            print("INCONCLUSIVE property=%s reason=%s" % (v.prop, r))
        return 2
    print("HELD property=%s tier=%s seed=%s evaluations=%d distinct_nontrivial=%d wall_s=%.1f" %
          (v.prop, v.tier, v.seed, v.evaluations, len(v.cells), time.time() - v.t0))
    return 0


def fresh_workdir(prop, tier, seed):
    d = os.path.join(WORK, prop, "%s-%s" % (tier, seed))
    if os.path.isdir(d):
        import shutil
        shutil.rmtree(d)
    os.makedirs(d)
    return d


def sha(s):
    return hashlib.sha256(s.encode() if isinstance(s, str) else s).hexdigest()


def run_entry(exe, entry, workdir, v, nshards=1, env=None, timeout=900, tag=None, threads=None):
    """Run an in-crate harness entry (`--exact <entry>`) as nshards processes with VERIF_* parameters.

    A non-zero exit (harness assertion, crash) or timeout is inconclusive: harness entries only record."""
    tag = tag or entry.replace("::", "_")

    def argv(i):
        e = {"VERIF_OUT": workdir, "VERIF_SEED": str(v.seed), "VERIF_TIER": v.tier, "VERIF_SHARD": str(i),
             "VERIF_SHARDS": str(nshards), "RUST_BACKTRACE": "0", "RUST_LOG": "off"}
        e.update(env or {})
        a = [exe, "--exact", entry, "--nocapture"]
        if threads:
            a += ["--test-threads", str(threads)]
        return a, e

    res = run_shards(argv, nshards, workdir, timeout=timeout, tag=tag)
    for r in res:
        if r["rc"] != 0:
            raise Inconclusive("harness entry %s shard %d exited with %s (see %s)" % (entry, r["shard"], r["rc"], r["stdout"]))
        with open(r["stdout"]) as f:
            txt = f.read()
        if "1 passed" not in txt:
            raise Inconclusive("harness entry %s shard %d did not run (see %s)" % (entry, r["shard"], r["stdout"]))
    return res


def check_started_ended(events, what="harness"):
    starts = sum(1 for e in events if e.get("kind") == "start")
    ends = sum(1 for e in events if e.get("kind") == "end")
    if starts == 0 or starts != ends:
        raise Inconclusive("%s: %d start / %d end events (a run did not finish)" % (what, starts, ends))
