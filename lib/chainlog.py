"""Reader for ChainSim event logs (/verif/harness/seq/app) + small reference computations shared by the C01-C07,
C14, C15, C18 oracles. Everything here is independent of the Rust code: integers are unbounded, state values are
decoded from their raw bytes by position (borsh tag bytes + little-endian payload)."""
import collections
import json
import os
import re

import runner

U128_MAX = (1 << 128) - 1
DEPOSIT_BASE_FEE = 16

ACTION_FULL_NAME = {
    "transfer": "astria.protocol.transaction.v1.Transfer",
    "rollup_data_submission": "astria.protocol.transaction.v1.RollupDataSubmission",
    "bridge_lock": "astria.protocol.transaction.v1.BridgeLock",
    "bridge_unlock": "astria.protocol.transaction.v1.BridgeUnlock",
    "bridge_transfer": "astria.protocol.transaction.v1.BridgeTransfer",
    "bridge_sudo_change": "astria.protocol.transaction.v1.BridgeSudoChange",
    "init_bridge_account": "astria.protocol.transaction.v1.InitBridgeAccount",
    "ics20_withdrawal": "astria.protocol.transaction.v1.Ics20Withdrawal",
}
# actions that carry a fee asset (the others are free whatever the schedule says)
FEE_BEARING = set(ACTION_FULL_NAME)


def b64std(s):
    return s.replace("-", "+").replace("_", "/")


def u128_of(v):
    """balance / escrow value: 2 tag bytes + u128 LE"""
    b = bytes.fromhex(v)
    return int.from_bytes(b[-16:], "little")


def u32_of(v):
    b = bytes.fromhex(v)
    return int.from_bytes(b[-4:], "little")


def addr_of(v):
    import base64
    b = bytes.fromhex(v)
    return base64.b64encode(b[-20:]).decode()


def fee_of(v):
    b = bytes.fromhex(v)
    return int.from_bytes(b[-32:-16], "little"), int.from_bytes(b[-16:], "little")


_BAL = re.compile(r"^accounts/([^/]+)/balance/(ibc/[0-9a-f]{64})$")
_NONCE = re.compile(r"^accounts/([^/]+)/nonce$")
_ESCROW = re.compile(r"^ibc/(channel-\d+)/balance/(ibc/[0-9a-f]{64})$")


def classify_key(k):
    """-> (class, detail...) for every state key the oracles reason about"""
    m = _BAL.match(k)
    if m:
        return ("balance", b64std(m.group(1)), m.group(2))
    m = _NONCE.match(k)
    if m:
        return ("nonce", b64std(m.group(1)))
    m = _ESCROW.match(k)
    if m:
        return ("escrow", m.group(1), m.group(2))
    if k.startswith("~fees/"):
        return ("eph_fee", k[len("~fees/"):])
    if k.startswith("~deposits/"):
        return ("eph_deposit", k)
    if k == "authority/sudo":
        return ("sudo",)
    if k == "ibc/sudo":
        return ("ibc_sudo",)
    if k.startswith("ibc/relayer/"):
        return ("ibc_relayer", b64std(k[len("ibc/relayer/"):]))
    if k.startswith("fees/allowed_asset/"):
        return ("fee_asset", k[len("fees/allowed_asset/"):])
    if k.startswith("fees/"):
        return ("fee_schedule", k[len("fees/"):])
    if k.startswith("authority/validator") or k.startswith("nv:authority/validator"):
        return ("validators", k)
    if k.startswith("bridge/sudo/"):
        return ("bridge_sudo", b64std(k[len("bridge/sudo/"):]))
    if k.startswith("bridge/withdrawer/"):
        return ("bridge_withdrawer", b64std(k[len("bridge/withdrawer/"):]))
    m = re.match(r"^bridge/account/([^/]+)/(rollup_id|asset_id|disabled|last_tx)$", k)
    if m:
        return ("bridge_" + m.group(2), b64std(m.group(1)))
    m = re.match(r"^bridge/account/([^/]+)/withdrawal_event/(.*)$", k)
    if m:
        return ("withdrawal_event", b64std(m.group(1)), m.group(2))
    if k.startswith("price_feed/") or k.startswith("nv:price_feed/"):
        return ("price_feed", k)
    if k.startswith("assets/"):
        return ("asset_registry", k)
    if k.startswith("bridge/deposit/") or k.startswith("nv:bridge/deposit") or k.startswith("nvx:"):
        return ("stored_block_data", k)
    if k.startswith("nv:") or k.startswith("app/") or k.startswith("upgrades/"):
        return ("system", k)
    if k.startswith("ibc") or k.startswith("clients/") or k.startswith("connections/") or k.startswith("channelEnds/") or \
            k.startswith("nextSequence") or k.startswith("commitments/") or k.startswith("receipts/") or k.startswith("acks/"):
        return ("ibc_core", k)
    return ("unknown", k)


def apply_diff(state, diff):
    for k, (old, new) in diff.items():
        if new is None:
            state.pop(k, None)
        else:
            state[k] = new


def totals(state):
    """asset -> sum of all account balances + all channel escrow balances (+ ephemeral block fees)"""
    t = collections.Counter()
    for k, v in state.items():
        c = classify_key(k)
        if c[0] == "balance":
            t[c[2]] += u128_of(v)
        elif c[0] == "escrow":
            t[c[2]] += u128_of(v)
        elif c[0] == "eph_fee":
            t[c[1]] += int(v)
    return t


class History:
    def __init__(self, key):
        self.key = key
        self.events = []
        self.genesis = None
        self.completed = None


def load(workdir):
    """-> list of History (one per (file, hist)); raises Inconclusive if a run did not end."""
    events = list(runner.read_events(workdir, prefix="events-chain"))
    runner.check_started_ended(events, "chain harness")
    hs = collections.OrderedDict()
    for e in events:
        if "hist" not in e:
            continue
        key = (e["_file"], e["hist"])
        h = hs.get(key)
        if h is None:
            h = hs[key] = History(key)
        h.events.append(e)
        if e["kind"] == "genesis":
            h.genesis = e
        elif e["kind"] == "hist_end":
            h.completed = e["completed"]
    return list(hs.values())


def fee_expectation(state, action):
    """-> (asset, exact_amount) expected for a fee-bearing action under the schedule in `state`, None if free,
    'disabled' if the action has no fee entry."""
    kind = action["kind"]
    if kind not in FEE_BEARING:
        return None
    v = state.get("fees/" + kind)
    if v is None:
        return "disabled"
    base, mult = fee_of(v)
    var = 0
    if kind == "rollup_data_submission":
        var = action["len"]
    elif kind == "bridge_lock":
        var = action["asset_display_len"] + len(action["dest"]) + DEPOSIT_BASE_FEE
    return (action["fee_asset"], base + mult * var)


def run_chain(v, workdir, profile, quick=(16, 3, 12), thorough=(16, 40, 25), extra_env=None):
    """Build the sequencer test binary (feature verif) and run the ChainSim entry: (shards, histories/shard, blocks)."""
    shards, hists, blocks = thorough if v.tier == "thorough" else quick
    exe = runner.build_crate_tests("astria-sequencer", workdir)
    env = {"VERIF_PROFILE": profile, "VERIF_HISTORIES": str(hists), "VERIF_BLOCKS": str(blocks)}
    env.update(extra_env or {})
    runner.run_entry(exe, "app::verif::chain", workdir, v, nshards=shards, env=env, timeout=3000 if v.tier == "thorough" else 900,
                     tag="chain-" + profile)
    return load(workdir)


def err_class(result):
    """coarse class of an error text, used in violation signatures (stable across amounts / addresses)"""
    r = re.sub(r"`[^`]*`", "`_`", result)
    r = re.sub(r"[0-9a-fA-F]{16,}", "H", r)
    r = re.sub(r"\d+", "N", r)
    return r[:90]


def construct_context(result, decided_ids, built_by_id):
    """For "failed to construct checked transaction" errors on a decided block: is the refused transaction one that is valid only
    after an earlier transaction of the same block (so that the proposer, executing mempool transactions one after another, could
    include it while everybody who rebuilds the block's transactions against the block-start state refuses it)? Returns a signature
    suffix naming the situation, or "" when it is not recognised (the signature then stays the generic error class)."""
    if "failed to construct checked transaction" not in result:
        return ""
    if "FeeAssetChange" in result and "failed to remove fee asset" in result:
        ops = collections.defaultdict(list)
        for pos, i in enumerate(decided_ids):
            b = built_by_id.get(i)
            for a in (b or {}).get("actions", []):
                if a["kind"] == "fee_asset_change":
                    ops[a["asset"]].append((pos, a["op"]))
        for asset, lst in ops.items():
            adds = [p for p, o in lst if o == "add"]
            rems = [p for p, o in lst if o == "remove"]
            if adds and rems and min(adds) < max(rems):
                return "/FeeAssetChange-removal-valid-only-after-the-addition-earlier-in-the-same-block"
    return ""


class TxObs:
    """One observed execution of one transaction by the lab node (decided tx or trial on a fork)."""
    __slots__ = ("hist", "height", "where", "trial", "tx", "result", "events", "diff", "pre", "signer", "nonce", "id")


def walk(h, on_block_end=None, on_block_begin=None):
    """Replays the lab's diffs of one history. Yields TxObs with `pre` = the full state dict *before* the transaction
    (a live dict: copy what you keep). Calls on_block_begin(height, pre_state, begin_diff) / on_block_end(height,
    state_before_end, end_diff, commit_diff, event)."""
    if h.genesis is None:
        return
    state = dict(h.genesis["state"])
    accounts = [a["addr"] for a in h.genesis["universe"]["accounts"]]
    built = {}
    for e in h.events:
        k = e["kind"]
        if k == "tx_built":
            built[e["id"]] = e
        elif k == "lab_begin":
            if on_block_begin:
                on_block_begin(e["height"], state, e["diff"])
            apply_diff(state, e["diff"])
        elif k in ("lab_tx", "lab_trial"):
            o = TxObs()
            o.hist, o.height, o.trial = h.key, e["height"], k == "lab_trial"
            o.where = e.get("idx", e.get("at"))
            o.result, o.events, o.diff = e["result"], e.get("events") or [], e.get("diff") or {}
            if o.trial:
                o.tx = e["tx"]
                o.id = o.tx["id"]
                o.signer = accounts[o.tx["signer"]]
                o.nonce = o.tx["nonce"]
            else:
                o.id = e["id"]
                o.tx = built.get(e["id"])
                o.signer = e["signer"]
                o.nonce = e["nonce"]
            o.pre = state
            yield o
            if not o.trial:
                apply_diff(state, o.diff)
        elif k == "lab_packet":
            o = TxObs()
            o.hist, o.height, o.trial, o.where = h.key, e["height"], False, "packet"
            o.result, o.events, o.diff = e["result"], e.get("events") or [], e.get("diff") or {}
            o.tx, o.id, o.signer, o.nonce = {"packet": e["packet"], "applied": e["applied"], "actions": [], "intent": "packet"}, None, None, None
            o.pre = state
            yield o
            if e["applied"]:
                apply_diff(state, o.diff)
                for key in [x for x in state if x.startswith("~")]:
                    del state[key]
            apply_diff(state, e["commit_diff"])
        elif k == "lab_end":
            if on_block_end:
                on_block_end(e["height"], state, e["end_diff"], e["commit_diff"], e)
            apply_diff(state, e["end_diff"])
            for key in [x for x in state if x.startswith("~")]:
                del state[key]
            apply_diff(state, e["commit_diff"])


def expected_effects(o):
    """Reference model: (account|escrow-channel|'~fees', asset) -> exact expected delta of a *successful* transaction,
    computed from its actions and the pre-state only. Returns (deltas, notes) or (None, reason) if the transaction
    contains an action the model does not cover."""
    d = collections.Counter()
    notes = []
    pre = o.pre
    if o.tx is None:
        return None, "transaction not in the build log"
    sched_changed = False
    for a in o.tx["actions"]:
        kind = a["kind"]
        if kind in ("fee_change", "fee_asset_change"):
            sched_changed = True
        if kind in FEE_BEARING:
            if sched_changed:
                return None, "fee schedule changes inside the transaction"
            fe = fee_expectation(pre, a)
            if fe == "disabled":
                return None, "fee-bearing action without schedule entry succeeded?"
            asset, amount = fe
            d[(o.signer, asset)] -= amount
            d[("~fees", asset)] += amount
            notes.append((kind, asset, amount))
        if kind == "transfer":
            amt = int(a["amount"])
            d[(o.signer, a["asset"])] -= amt
            d[(a["to"], a["asset"])] += amt
        elif kind == "bridge_lock":
            amt = int(a["amount"])
            d[(o.signer, a["asset"])] -= amt
            d[(a["to"], a["asset"])] += amt
        elif kind in ("bridge_unlock", "bridge_transfer"):
            amt = int(a["amount"])
            asset = bridge_asset(pre, a["bridge"])
            if asset is None:
                return None, "unlock from an account without bridge asset"
            d[(a["bridge"], asset)] -= amt
            d[(a["to"], asset)] += amt
        elif kind == "ics20_withdrawal":
            amt = int(a["amount"])
            src = a["bridge"] or o.signer
            d[(src, a["denom_ibc"])] -= amt
            if not a.get("denom_trace", a["denom"]).startswith("transfer/" + a["channel"] + "/") and not a.get("denom_trace", a["denom"]).startswith("ibc/"):
                d[("escrow:" + a["channel"], a["denom_ibc"])] += amt
            elif a.get("denom_trace", a["denom"]).startswith("ibc/"):
                return None, "ibc/-spelled withdrawal denom: origin decided by the C18 oracle"
        elif kind in ("rollup_data_submission", "init_bridge_account", "bridge_sudo_change", "fee_change", "fee_asset_change",
                      "sudo_address_change", "ibc_sudo_change", "ibc_relayer_change", "validator_update"):
            pass
        else:
            return None, "action kind %s not modelled" % kind
    return {k: v for k, v in d.items() if v != 0}, notes


def bridge_asset(state, bridge_b64):
    key = "bridge/account/%s/asset_id" % bridge_b64.replace("+", "-").replace("/", "_")
    v = state.get(key)
    if v is None:
        return None
    return "ibc/" + bytes.fromhex(v)[-32:].hex()


def actual_effects(diff):
    d = {}
    for k, (old, new) in diff.items():
        c = classify_key(k)
        if c[0] == "balance":
            d[(c[1], c[2])] = (u128_of(new) if new else 0) - (u128_of(old) if old else 0)
        elif c[0] == "escrow":
            d[("escrow:" + c[1], c[2])] = (u128_of(new) if new else 0) - (u128_of(old) if old else 0)
        elif c[0] == "eph_fee":
            d[("~fees", c[1])] = (int(new) if new else 0) - (int(old) if old else 0)
    return {k: v for k, v in d.items() if v != 0}


def ibc_id(trace):
    import hashlib
    return "ibc/" + hashlib.sha256(trace.encode()).hexdigest()


def trace_of(state_or_universe_assets, denom):
    """trace form of a denom that may be spelled ibc/<hex>: looked up in the list of (trace, ibc) pairs"""
    if not denom.startswith("ibc/"):
        return denom
    for t, i in state_or_universe_assets:
        if i == denom:
            return t
    return None
