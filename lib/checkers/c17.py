"""C17 Untrusted wire data never panics a decoder; accepted values are self-consistent.

Harness: /verif/harness/ext/vh-wire (public astria-core decoders: transaction, sequencer block, filtered block, Celestia
metadata / rollup-data entries and brotli blobs) fed with structure-aware mutants of valid encodings produced by the
crate's own builders. Oracle: a panic anywhere is a violation; `Ok(v)` must re-encode and decode to the same bytes and
its derived artefacts must be accepted again; every valid encoding must be accepted (else the corpus is broken =
inconclusive). Thorough tier repeats a slice under valgrind memcheck (brotli has unsafe code)."""
import os
import re
import subprocess

import runner

LEVEL = "exploration"
_LOC = re.compile(r"([^ ]*crates/[^ :]+:\d+)")


def _build(workdir, release):
    saved = runner.TARGET
    runner.TARGET = os.path.join(saved, "ext")
    try:
        return runner.build_ext("vh-wire", workdir, release=release)
    finally:
        runner.TARGET = saved


def run(v, workdir, replay):
    thorough = v.tier == "thorough"
    v.rule = ("case = one byte string given to one decoder entry point; distinct non-trivial = distinct (entry point, mutation operator family, "
              "outcome) cells; truncation is exhaustive over every offset of every valid encoding <= 2 KiB")
    v.assumptions = ["valid encodings come from the crate's own builders (ConfigureSequencerBlock, TransactionBody::sign, split_for_celestia)",
                     "CheckTx is driven in-crate (app::verif::checktx_fuzz: ChainSim transactions mutated whole and as re-signed bodies against a live state); Celestia blob fetch wrappers are exercised by the C09 pipeline; gRPC response conversions are the public try_from_raw entry points"]
    exe = _build(workdir, False)
    shards = 16
    rounds = 400 if thorough else 40

    def argv(i):
        return [exe, str(v.seed), os.path.join(workdir, "events-wire-%03d.jsonl" % i), "shard=%d" % i, "shards=%d" % shards, "rounds=%d" % rounds], {}

    res = runner.run_shards(argv, shards, workdir, timeout=2400, tag="wire")
    for r in res:
        if r["rc"] != 0:
            raise runner.Inconclusive("vh-wire shard %d exited with %s (see %s)" % (r["shard"], r["rc"], r["stdout"]))
    # in-crate part: mutated / re-signed transactions at the sequencer's CheckTx boundary on a live chain state
    sexe = runner.build_crate_tests("astria-sequencer", workdir)
    runner.run_entry(sexe, "app::verif::checktx_fuzz", workdir, v, nshards=16, timeout=2400,
                     env={"VERIF_HISTORIES": "6" if thorough else "1", "VERIF_CAP_WHOLE": "400" if thorough else "250",
                          "VERIF_CAP_BODY": "900" if thorough else "500"})
    if thorough:
        rexe = _build(workdir, True)
        out = os.path.join(workdir, "events-wire-valgrind.jsonl")
        vg = subprocess.run(["valgrind", "--error-exitcode=97", "--quiet", rexe, str(v.seed), out, "shard=0", "shards=64", "rounds=1"],
                            stdout=subprocess.PIPE, stderr=subprocess.STDOUT, timeout=3000)
        v.extra["valgrind_rc"] = vg.returncode
        if vg.returncode == 97:
            v.violate("C17/valgrind-memcheck-error", "valgrind memcheck reported an error while decoding mutated inputs",
                      {"tail": vg.stdout.decode("utf-8", "replace")[-2000:]})
        elif vg.returncode != 0:
            raise runner.Inconclusive("valgrind run failed with %d" % vg.returncode)
    events = list(runner.read_events(workdir, prefix="events-wire"))
    runner.check_started_ended(events)
    for e in events:
        k = e.get("kind")
        if k == "decode_summary":
            v.evaluations += e["n"]
            v.cell(e["entry"], e["operator"], e["outcome"])
            v.saw("inputs", e["n"])
            v.saw("entry:" + e["entry"], e["n"])
            if e["outcome"] == "ok":
                v.saw("accepted", e["n"])
                if e["entry"].startswith("check_tx") and e["operator"] != "valid":
                    v.saw("checktx_accepted_mutants", e["n"])
            v.saw("op:" + e["operator"].split(":")[-1], e["n"])
        elif k == "proof_reverification":
            v.saw("proofs_reverified_on_accepted_blocks", e["proofs_reverified"])
            v.saw("refusal_errors_rendered", e.get("errors_rendered", 0))
            v.saw("obs_library_accepts_where_rfc9162_rejects", e["library_accepts_where_rfc9162_rejects"])
        elif k == "checktx_corpus":
            for kind, n in e["action_kinds"].items():
                v.saw("checktx_corpus_kind:" + kind, n)
            for m in e.get("internal_error_samples", []):
                v.extra.setdefault("obs_checktx_internal_error_samples", [])
                if len(v.extra["obs_checktx_internal_error_samples"]) < 6:
                    v.extra["obs_checktx_internal_error_samples"].append(m[:200])
        elif k == "decode_case":
            oc = e["outcome"]
            wit = {"entry": e["entry"], "operator": e["operator"], "outcome": oc, "input_hex": e["input"][:4000], "input_len": len(e["input"]) // 2}
            if e["operator"] == "valid":
                raise runner.Inconclusive("a valid %s encoding built by the harness is not accepted (%s): corpus broken" % (e["entry"], oc))
            if oc.startswith("panic") and ("vh-wire/src" in oc or "harness/common" in oc or "/verif/harness" in oc):
                raise runner.Inconclusive("the harness itself panicked (%s): not a statement about astria" % oc[:200])
            if oc.startswith("panic"):
                m = _LOC.search(oc)
                loc = m.group(1).split("crates/", 1)[1] if m else "unknown"
                v.violate("C17/panic/%s/%s" % (e["entry"], loc), "decoding %s panicked at %s (operator %s)" % (e["entry"], loc, e["operator"]), wit)
            else:
                v.violate("C17/accepted-value-inconsistent/%s/%s" % (e["entry"], oc), "%s accepted a value that is not self-consistent: %s" % (e["entry"], oc), wit)
    v.need("inputs", 500000 if not thorough else 5000000)
    v.need("accepted", 5000)
    v.need("refusal_errors_rendered", 100000)
    v.need("op:type_url_rewritten", 100)
    v.need("entry:check_tx", 50000)
    v.need("entry:check_tx_resigned", 50000)
    v.need("checktx_accepted_mutants", 200)
    v.need("proofs_reverified_on_accepted_blocks", 2000)
    for en in ("transaction", "transaction_resigned", "sequencer_block", "filtered_block", "submitted_metadata", "submitted_rollup_data", "metadata_blob", "rollup_blob"):
        v.need("entry:" + en, 2000)
    for op in ("truncate", "flip_bit", "splice", "delete_field", "duplicate_field", "reorder_field", "varint_extreme", "varint_nudge", "length_prefix",
               "append_32_bytes", "remove_32_bytes", "flip_in_bytes"):
        v.need("op:" + op, 200)
    v.sample({"entries": sorted({c.split("|")[0] for c in v.cells}), "operators": sorted({c.split("|")[1] for c in v.cells})[:40]})
