"""C06 Honest proposals are always accepted; malformed or over-limit ones rejected.

ChainSim profile `proposals`. Oracle:
 liveness half - PrepareProposal never fails; its block is accepted by ProcessProposal of every honest node it is shown
   to; sum of raw tx bytes <= max_tx_bytes; sequenced rollup payload bytes <= 256000; action-group order non-increasing;
   every contained transaction executes without a fatal error (lab);
 safety half - every mutant of the catalogue whose defect is in the property's list (commitment mismatch, mis-ordered,
   undecodable, unsigned / signature broken, fatally failing, replayed, over the sequenced-data limit, data items
   dropped / duplicated / of the wrong kind) must be rejected by ProcessProposal; control twins (honest proposal under
   another hash; crafted proposal exactly at the limit) must be accepted, which validates the crafting machinery."""
import collections

import chainlog
import runner

LEVEL = "exploration"
SEQ_LIMIT = 256_000
GROUP_RANK = {"BundleableGeneral": 3, "UnbundleableGeneral": 2, "BundleableSudo": 1, "UnbundleableSudo": 0}


def run(v, workdir, replay):
    v.rule = ("case = one honest proposal judged on size / order / acceptance, or one mutant judged by ProcessProposal; distinct non-trivial = "
              "distinct (mutation class, era typed/untyped items, outcome) cells plus distinct (max_tx_bytes class, fill class, groups present) "
              "cells of honest proposals with user transactions")
    v.assumptions = ["the byte limit judged is the application-side accounting named by the property (sum of raw tx lengths); CometBFT's own framing is not modelled",
                     "mutants are judged on a node at the same committed state as the proposer"]
    hists = chainlog.run_chain(v, workdir, "proposals", quick=(16, 2, 10), thorough=(16, 25, 20))
    check(v, hists)
    q = v.tier == "quick"
    v.need("honest_blocks_containing_a_failing_relay_tx", 20)
    v.need("honest_blocks_containing_a_failing_relay_tx_with_large_rollup_data", 5)
    v.need("honest_proposals", 150 if q else 4000)
    v.need("mutants_must_reject", 1000 if q else 30000)
    v.need("controls_accepted", 100)
    for c in ("flip_commitment_byte", "swap_commitments", "drop_data_item", "duplicate_data_item", "tx_replaced_by_garbage", "tx_truncated",
              "tx_signature_bit_flipped", "tx_body_altered_signature_kept", "tx_duplicated", "append_replayed_committed_tx",
              "append_fatally_failing_tx", "sequenced_data_over_limit_by_one", "same_signer_nonce_order_swapped"):
        v.need("mutant:" + c, 2)
    v.need("mutant:group_order_violated", 1)
    v.need("byte_limit_binding", 2)
    v.need("sequenced_limit_binding", 1)
    v.need("multi_group_blocks", 4)
    v.need("proposals_carrying_signed_vote_extensions", 20)


def check(v, hists):
    for h in hists:
        by_height = collections.defaultdict(list)
        built_by_id = {e["id"]: e for e in h.events if e.get("kind") == "tx_built"}
        for e in h.events:
            if "height" in e:
                by_height[e["height"]].append(e)
        for height, evs in sorted(by_height.items()):
            # does this height show the known situation D18 (a transaction valid only after an earlier one of the same block)? Then the
            # control twin of the honest proposal is refused for the same reason and is reported under the same signature
            d18 = ""
            for pe in evs:
                if pe["kind"] == "abci" and pe["call"] == "process" and pe.get("class") in ("decided", "abandoned_honest") and pe["result"] != "ok":
                    ids = []
                    for qe in evs:
                        if qe["kind"] == "abci" and qe["call"] == "prepare" and qe.get("block") == pe.get("block"):
                            ids = qe.get("tx_ids") or []
                    d18 = d18 or chainlog.construct_context(pe["result"], ids, built_by_id)
            for e in evs:
                wit = {"hist": list(h.key), "height": height, "event": {k: e[k] for k in e if k not in ("_file",)}}
                if e["kind"] == "abci" and e["call"] == "prepare" and e["result"] != "ok":
                    v.violate("C06/prepare-proposal-failed/" + chainlog.err_class(e["result"]), "PrepareProposal failed: " + e["result"][:150], wit)
                if e["kind"] == "abci" and e["call"] == "process" and e.get("class") in ("decided", "abandoned_honest") and e["result"] != "ok":
                    prep_ids = []
                    for pe in evs:
                        if pe["kind"] == "abci" and pe["call"] == "prepare" and pe.get("block") == e.get("block"):
                            prep_ids = pe.get("tx_ids") or []
                    cctx = chainlog.construct_context(e["result"], prep_ids, built_by_id)
                    if cctx:
                        v.violate("C06/honest-proposal-rejected/construct" + cctx, "an honest node rejected a block produced by PrepareProposal: " + e["result"][:200], wit)
                        continue
                    v.violate("C06/honest-proposal-rejected/" + chainlog.err_class(e["result"]), "an honest node rejected a block produced by PrepareProposal: " + e["result"][:150], wit)
                if e["kind"] == "lab_tx" and e["result"] != "ok" and "non-fatal" not in e["result"] and "NonFatal" not in e["result"]:
                    if not e["result"].startswith("err:`IbcRelay`"):
                        v.violate("C06/proposed-transaction-failed-fatally", "a transaction contained in an honest block failed fatally: " + e["result"][:120], wit)
                if e["kind"] == "abci" and e["call"] == "prepare" and e["result"] == "ok":
                    for i in e.get("tx_ids") or []:
                        b = built_by_id.get(i)
                        if b and b.get("intent", "").startswith("relay_fails_nonfatal"):
                            v.saw("honest_blocks_containing_a_failing_relay_tx")
                            if sum(a.get("len", 0) for a in b["actions"] if a["kind"] == "rollup_data_submission") >= 100_000:
                                v.saw("honest_blocks_containing_a_failing_relay_tx_with_large_rollup_data")
                if e["kind"] == "eci" and e.get("committed_power", 0) > 0:
                    v.saw("proposals_carrying_signed_vote_extensions")
                if e["kind"] == "proposal_honest":
                    v.evaluations += 1
                    v.saw("honest_proposals")
                    mx = e["max_tx_bytes"]
                    if e["total_bytes"] > mx:
                        v.violate("C06/proposal-exceeds-max-tx-bytes", "PrepareProposal returned %d bytes for max_tx_bytes %d" % (e["total_bytes"], mx), wit)
                    if e["sequenced_bytes"] > SEQ_LIMIT:
                        v.violate("C06/proposal-exceeds-sequenced-data-limit", "PrepareProposal included %d bytes of rollup data" % e["sequenced_bytes"], wit)
                    ranks = [GROUP_RANK.get(g, -1) for g in e["groups"]]
                    if any(ranks[i] < ranks[i + 1] for i in range(len(ranks) - 1)):
                        v.violate("C06/proposal-group-order", "PrepareProposal ordered groups %s" % e["groups"], wit)
                    if len(set(e["groups"])) > 1:
                        v.saw("multi_group_blocks")
                    fill = "empty" if not e["groups"] else ("tight" if mx - e["total_bytes"] < 400 else "loose")
                    if e["groups"] and e["mempool_len"] > len(e["groups"]) and mx - e["total_bytes"] < 3000:
                        v.saw("byte_limit_binding")
                    if e["sequenced_bytes"] > SEQ_LIMIT - 60_000:
                        v.saw("sequenced_limit_binding")
                    if e["groups"]:
                        v.cell("honest", "small" if mx < 3000 else ("mid" if mx < 20000 else "big"), fill, tuple(sorted(set(e["groups"]))))
                    if len(v.samples) < 2 and len(e["groups"]) >= 3:
                        v.sample({"honest_proposal": {k: e[k] for k in ("max_tx_bytes", "total_bytes", "sequenced_bytes", "groups")}})
                if e["kind"] == "proposal_mutation":
                    v.evaluations += 1
                    cls, must, acc = e["class"], e["must_reject"], e["accepted"]
                    if cls.startswith("sequenced_data"):
                        # crafted from scratch: only meaningful if its twin exactly at the limit was accepted at this height
                        # (otherwise the environment - action disabled, unaffordable fee - explains any rejection)
                        ctrl = [x for x in evs if x["kind"] == "proposal_mutation" and x["class"] == "sequenced_data_exactly_at_limit"]
                        if not ctrl or not ctrl[0]["accepted"]:
                            v.saw("sequenced_limit_twin_unavailable")
                            continue
                        if cls == "sequenced_data_exactly_at_limit":
                            v.saw("controls_accepted")
                            continue
                    v.saw("mutant:" + cls)
                    v.cell("mutant", cls, "typed" if e["typed_items"] else "untyped", "accepted" if acc else "rejected")
                    if must is True:
                        v.saw("mutants_must_reject")
                        if acc:
                            v.violate("C06/malformed-proposal-accepted/" + cls, "ProcessProposal accepted a proposal with defect %s (%s)" % (cls, e["note"]), wit)
                    elif must is False:
                        if acc:
                            v.saw("controls_accepted")
                        else:
                            if d18 and cls == "control_honest_proposal":
                                v.violate("C06/honest-proposal-rejected/construct" + d18, "the control twin of the honest proposal was rejected for the same reason as the proposal itself", wit)
                            else:
                                v.violate("C06/control-proposal-rejected/" + cls, "a well-formed control proposal (%s) was rejected" % cls, wit)
                    else:
                        v.saw("mutants_either_answer")
                    if len(v.samples) < 5 and must and cls.startswith("sequenced"):
                        v.sample({"mutant": cls, "note": e["note"], "accepted": acc})
