"""C18 IBC transfers: exact escrow accounting; a failed receive has no side effects.

Oracle (exact integers), independent ICS-20 reference:
 * a ledger per (channel, sequencer-origin asset): + every successful outgoing withdrawal over that channel, - every
   successful returning receive and every refund (time-out / error ack); the escrow keys found in the state must equal
   this ledger after every transaction and packet. "Sequencer-origin" is decided from the TRACE form of the asset,
   whatever spelling (trace or ibc/<hash>) the withdrawal used;
 * a receive acknowledged with an ERROR must change nothing but the acknowledgement record: no balance, no escrow, no
   asset registration, no cached deposit, no deposit event;
 * a successful receive / refund changes exactly: escrow -amount (returning asset) or mint (voucher), recipient +amount,
   and - if the recipient is a bridge account - exactly one deposit of that amount in the bridge's asset."""
import collections
import hashlib
import json

import chainlog
import runner

LEVEL = "exploration"
ACK_OK = hashlib.sha256(b'{"result":"AQ=="}').hexdigest()


def run(v, workdir, replay):
    v.rule = ("case = one IBC packet handled by Ics20Transfer (recv / timeout / ack) or one outgoing Ics20Withdrawal, observed on the lab "
              "node with the full-state diff; distinct non-trivial = distinct (handler, asset class, recipient class, amount class, outcome) cells")
    v.assumptions = ["packets are driven at the AppHandler boundary (penumbra's proof verification is not exercised)",
                     "each outgoing packet is acknowledged / timed out at most once, as IBC core guarantees"]
    hists = chainlog.run_chain(v, workdir, "ibc", quick=(16, 3, 16), thorough=(16, 40, 30))
    check(v, hists)
    q = v.tier == "quick"
    v.need("packets", 250 if q else 6000)
    v.need("withdrawals_ok", 25 if q else 800)
    v.need("recv_success", 40)
    v.need("recv_error_ack", 30)
    v.need("recv_error_ack_to_bridge", 2)
    v.need("refunds_ok", 5)
    v.need("withdrawal_ibc_spelling", 2)
    v.need("recv_to_bridge_success", 1)
    for c in ("bad_receiver", "foreign_not_allowed", "bridge_bad_memo", "escrow_plus_1", "overflows_u128", "not_a_number"):
        v.need("cause:" + c, 1)


def check(v, hists):
    for h in hists:
        uni = h.genesis["universe"]
        assets = [(a["denom"], a["ibc"]) for a in uni["assets"]]
        ledger = collections.Counter()     # (channel, ibc asset) -> expected escrow
        last_withdrawal = {}

        def compare(state, wit, when):
            actual = collections.Counter()
            for k, val in state.items():
                c = chainlog.classify_key(k)
                if c[0] == "escrow":
                    actual[(c[1], c[2])] = chainlog.u128_of(val)
            for key in set(actual) | set(ledger):
                if actual[key] != ledger[key]:
                    lw = last_withdrawal.get(key)
                    cause = "ibc-prefixed-spelling-not-escrowed" if lw and lw.startswith("ibc/") and actual[key] < ledger[key] else "other"
                    v.violate("C18/escrow-differs-from-ledger/" + cause,
                              "escrow of %s on %s is %d but sent-out minus returned is %d (%s)" % (key[1][:14], key[0], actual[key], ledger[key], when),
                              dict(wit, channel=key[0], asset=key[1], escrow=str(actual[key]), ledger=str(ledger[key])))
                    ledger[key] = actual[key]   # resynchronise: report each discrepancy once

        for o in chainlog.walk(h):
            if o.where != "packet":
                # outgoing withdrawals inside ordinary transactions
                if o.result != "ok" or o.tx is None or o.trial:
                    continue
                post = None
                for a in o.tx["actions"]:
                    if a["kind"] != "ics20_withdrawal":
                        continue
                    v.evaluations += 1
                    v.saw("withdrawals_ok")
                    trace = chainlog.trace_of(assets, a["denom"])
                    if a["denom"].startswith("ibc/"):
                        v.saw("withdrawal_ibc_spelling")
                    if trace is None:
                        raise runner.Inconclusive("withdrawal of an asset the harness does not know: " + a["denom"])
                    origin_here = not trace.startswith("transfer/%s/" % a["channel"])
                    key = (a["channel"], a["denom_ibc"])
                    if origin_here:
                        ledger[key] += int(a["amount"])
                        last_withdrawal[key] = a["denom"]
                    v.cell("withdraw", "origin_here" if origin_here else "voucher", "ibc_spelling" if a["denom"].startswith("ibc/") else "trace_spelling",
                           "bridge" if a.get("bridge") else "plain")
                    post = dict(o.pre)
                    chainlog.apply_diff(post, o.diff)
                if post is not None:
                    compare(post, {"hist": list(o.hist), "height": o.height, "tx": o.tx}, "after withdrawal")
                continue
            # ---- a packet
            p = o.tx["packet"]
            v.evaluations += 1
            v.saw("packets")
            cls = p["class"].split("|")
            wit = {"hist": list(o.hist), "height": o.height, "packet": p, "result": o.result, "diff": o.diff,
                   "events": [e for e in o.events if e["kind"] == "tx.deposit"]}
            for c in cls:
                v.saw("cause:" + c)
            if o.result.startswith("panic"):
                v.violate("C18/panic-in-packet-handler/" + chainlog.err_class(o.result), "Ics20Transfer handler panicked: " + o.result[:160], wit)
                continue
            act = chainlog.actual_effects(o.diff)
            new_deps = [json.loads(new) for k, (old, new) in o.diff.items() if k.startswith("~deposits/") and old is None and new]
            dep_events = [e for e in o.events if e["kind"] == "tx.deposit"]
            if p["handler"] == "recv":
                if o.result != "ok":
                    v.violate("C18/recv-handler-returned-error", "recv_packet_execute returned an error instead of an acknowledgement: " + o.result[:120], wit)
                    continue
                acks = [new for k, (old, new) in o.diff.items() if k.startswith("ibc-data/acks/")]
                if len(acks) != 1:
                    v.violate("C18/no-acknowledgement-written", "receive wrote %d acknowledgements" % len(acks), wit)
                    continue
                success = acks[0] == ACK_OK
                v.cell("recv", cls[0], cls[1], cls[2], "success" if success else "error_ack")
                bridge_target = cls[1].startswith("bridge")
                if not success:
                    v.saw("recv_error_ack")
                    if bridge_target:
                        v.saw("recv_error_ack_to_bridge")
                    side = sorted({chainlog.classify_key(k)[0] for k in o.diff if not k.startswith("ibc-data/acks/")})
                    if side or dep_events:
                        what = "+".join(side) + ("+deposit_event" if dep_events else "")
                        v.violate("C18/failed-receive-left-side-effects/" + what,
                                  "a receive acknowledged with an error changed state: %s (%d deposit events)" % (", ".join(side), len(dep_events)), wit)
                    continue
                v.saw("recv_success")
                amount = int(p["amount"])
                prefix = "transfer/%s/" % p["remote_channel"]
                if p["denom"].startswith(prefix):
                    trace = p["denom"][len(prefix):]
                    asset = chainlog.ibc_id(trace)
                    expected = {("escrow:" + p["local_channel"], asset): -amount}
                    ledger[(p["local_channel"], asset)] -= amount
                else:
                    trace = "transfer/%s/%s" % (p["local_channel"], p["denom"])
                    asset = chainlog.ibc_id(trace)
                    expected = {}
                    if (trace, asset) not in assets:
                        assets.append((trace, asset))
                if p["party_b64"] is None:
                    v.violate("C18/receive-to-unparsable-recipient-succeeded", "receiver %r accepted" % p["receiver"], wit)
                    continue
                expected[(p["party_b64"], asset)] = expected.get((p["party_b64"], asset), 0) + amount
                expected = {k: n for k, n in expected.items() if n}
                if act != expected:
                    wit["expected"] = {"%s|%s" % k: str(n) for k, n in expected.items()}
                    wit["actual"] = {"%s|%s" % k: str(n) for k, n in act.items()}
                    v.violate("C18/receive-effects-differ-from-ics20-rule", "successful receive changed balances/escrow differently from the ICS-20 source/sink rule", wit)
                if bridge_target:
                    v.saw("recv_to_bridge_success")
                    basset = chainlog.bridge_asset(o.pre, p["party_b64"])
                    ok = len(new_deps) == 1 and int(new_deps[0]["amount"]) == amount and new_deps[0]["asset_ibc"] == asset == basset and new_deps[0]["bridge"] == p["party_b64"]
                    if not ok:
                        v.violate("C18/receive-to-bridge-deposit-mismatch", "receive to a bridge account produced deposits %s (bridge asset %s)" % (new_deps, basset), wit)
                elif new_deps:
                    v.violate("C18/deposit-for-plain-recipient", "receive to a plain account produced a deposit", wit)
            else:
                v.cell(p["handler"], "rollup_memo" if p["memo"] else "plain", o.result.split(":")[0])
                if o.result != "ok":
                    # the enclosing transaction fails; nothing is applied (the delta is dropped). The cause shows up in the ledger.
                    v.saw("refund_rejected")
                    continue
                if p["handler"] == "ack_success":
                    if act or new_deps:
                        v.violate("C18/successful-ack-changed-funds", "a success acknowledgement moved funds", wit)
                    continue
                v.saw("refunds_ok")
                amount = int(p["amount"])
                trace = chainlog.trace_of(assets, p["denom"])
                if trace is None:
                    raise runner.Inconclusive("refund of unknown denom " + p["denom"])
                asset = chainlog.ibc_id(trace)
                expected = {(p["party_b64"], asset): amount}
                if not trace.startswith("transfer/%s/" % p["local_channel"]):
                    expected[("escrow:" + p["local_channel"], asset)] = -amount
                    ledger[(p["local_channel"], asset)] -= amount
                if act != expected:
                    wit["expected"] = {"%s|%s" % k: str(n) for k, n in expected.items()}
                    wit["actual"] = {"%s|%s" % k: str(n) for k, n in act.items()}
                    v.violate("C18/refund-effects-differ-from-ics20-rule", "refund changed balances/escrow differently from the ICS-20 rule", wit)
            post = dict(o.pre)
            if o.tx["applied"]:
                chainlog.apply_diff(post, o.diff)
            compare(post, wit, "after packet")
            if len(v.samples) < 5 and p["handler"] == "recv" and len(cls) == 3 and cls[2] != "ordinary":
                v.sample({"packet": {k: p[k] for k in ("handler", "denom", "amount", "class")}, "result": o.result, "changed_keys": len(o.diff)})
