"""C03 Transactions are atomic and execute at most once, in nonce order.

Oracle over the lab's per-transaction full-state diffs (verifiable + non-verifiable + ephemeral fees/deposits):
 (i)  an execution that returned an error (decided tx or trial on a fork) must leave an EMPTY diff and no events;
 (ii) a successful execution needs signer nonce == tx nonce before and == nonce+1 after, and changes no other nonce;
 (iii) no transaction id and no (signer, nonce) pair succeeds twice in a history."""
import chainlog
import runner

LEVEL = "exploration"


def run(v, workdir, replay):
    v.rule = ("case = one execution of one transaction on the lab node (decided transaction, or a built-to-fail / replayed / gapped "
              "trial on a fork of the intermediate state); distinct non-trivial = distinct (intent class, outcome class, number of "
              "actions, has deposit-emitting action before the failure) cells over executions that reached execute_transaction")
    v.assumptions = ["the state dump covers the verifiable store, the non-verifiable store and the ephemeral fee/deposit caches",
                     "refusals at construction (CheckedTransaction::new) execute nothing by construction"]
    hists = chainlog.run_chain(v, workdir, "atomic")
    check(v, hists)
    v.need("executions", 800 if v.tier == "quick" else 20000)
    v.need("failed_executions", 80)
    for k in range(5):
        v.need("fail_at:%d" % k, 2)
    v.need("failed_after_deposit_action", 2)
    v.need("replay_attempts", 8)
    v.need("replays_of_executed_in_block", 6)
    v.need("gapped_nonce_attempts", 3)
    v.need("successful_executions", 150)
    v.need("nonfatal_failure_included_in_block", 5)
    v.need("nonfatal_failure_after_other_actions_in_same_tx", 3)


def nonce_of(v):
    return chainlog.u32_of(v) if v else 0


def check(v, hists):
    for h in hists:
        seen_ids = {}
        seen_nonce = {}
        for o in chainlog.walk(h):
            if o.where == "packet":
                continue
            intent = (o.tx or {}).get("intent", "?")
            iclass = intent.split(":")[1] if intent.startswith("trial:") and ":" in intent[6:] else intent.split(":")[0]
            if intent.startswith("trial:fail_at"):
                iclass = "fail_at"
            if "replay" in intent:
                v.saw("replay_attempts")
            if intent == "trial:replay_executed_in_block":
                v.saw("replays_of_executed_in_block")
            if "gapped" in intent:
                v.saw("gapped_nonce_attempts")
            if o.result.startswith("refused"):
                v.saw("refused_at_construction")
                continue
            v.evaluations += 1
            v.saw("executions")
            nact = len((o.tx or {}).get("actions", []))
            wit = {"hist": list(o.hist), "height": o.height, "at": o.where, "trial": o.trial, "tx": o.tx, "result": o.result, "diff": o.diff}
            if o.result == "ok":
                v.saw("successful_executions")
                v.cell(iclass, "ok", min(nact, 6))
                skey = "accounts/%s/nonce" % o.signer.replace("+", "-").replace("/", "_")
                before = nonce_of(o.pre.get(skey))
                if before != o.nonce:
                    v.violate("C03/executed-with-wrong-nonce", "transaction with nonce %d took effect while the signer's nonce was %d" % (o.nonce, before), wit)
                ch = o.diff.get(skey)
                if ch is None or nonce_of(ch[1]) != before + 1:
                    v.violate("C03/nonce-not-incremented-by-one", "successful transaction left the signer nonce at %s (was %d)" % (ch, before), wit)
                for k in o.diff:
                    c = chainlog.classify_key(k)
                    if c[0] == "nonce" and c[1] != o.signer:
                        v.violate("C03/foreign-nonce-changed", "a transaction changed the nonce of another account", wit)
                if not o.trial:
                    if o.id in seen_ids:
                        v.violate("C03/transaction-took-effect-twice", "transaction %s succeeded at heights %s and %s" % (o.id[:16], seen_ids[o.id], o.height), wit)
                    seen_ids[o.id] = o.height
                    if (o.signer, o.nonce) in seen_nonce:
                        v.violate("C03/nonce-used-twice", "(signer, nonce) succeeded twice", wit)
                    seen_nonce[(o.signer, o.nonce)] = o.height
                if o.trial and intent == "trial:replay_executed_in_block":
                    v.violate("C03/executed-transaction-took-effect-again-in-block", "a transaction that already executed in this block executed successfully a second time", wit)
                if o.trial and o.id in seen_ids:
                    v.violate("C03/replay-took-effect", "replayed bytes of a committed transaction executed successfully", wit)
            else:
                v.saw("failed_executions")
                if "non-fatal" in o.result and not o.trial:
                    v.saw("nonfatal_failure_included_in_block")
                    if nact >= 2:
                        v.saw("nonfatal_failure_after_other_actions_in_same_tx")
                oc = "panic" if o.result.startswith("panic") else "err"
                dep_before = False
                if intent.startswith("trial:fail_at:"):
                    k = int(intent.split(":")[2])
                    v.saw("fail_at:%d" % min(k, 5))
                    acts = (o.tx or {}).get("actions", [])
                    dep_before = any(a["kind"] == "bridge_lock" for a in acts[:k])
                    if dep_before:
                        v.saw("failed_after_deposit_action")
                v.cell(iclass, oc, min(nact, 6), dep_before)
                if o.result.startswith("panic"):
                    v.violate("C03/panic-in-execute/" + chainlog.err_class(o.result), "execute_transaction panicked: " + o.result[:160], wit)
                if o.diff:
                    kinds = sorted({chainlog.classify_key(k)[0] for k in o.diff})
                    v.violate("C03/failed-transaction-left-writes/" + "+".join(kinds),
                              "a transaction that returned an error changed %d state keys (%s)" % (len(o.diff), ", ".join(kinds)), wit)
                if o.events:
                    v.violate("C03/failed-transaction-emitted-events", "a failed transaction returned events", wit)
                if len(v.samples) < 4 and intent.startswith("trial:fail_at") and nact >= 3:
                    v.sample({"intent": intent, "actions": [a["kind"] for a in o.tx["actions"]], "result": o.result[:100], "diff_keys": len(o.diff)})
