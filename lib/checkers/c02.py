"""C02 Only the owner or designated authority moves funds or changes privileged state.

Oracle over the lab's per-transaction diffs: every changed key is classified; a balance may only decrease for the signer
or for a bridge account whose withdrawer in the PRE-state is the signer; privileged keys may only change when the signer
is the authority recorded in the PRE-state for that key class."""
import chainlog
import runner

LEVEL = "exploration"

# who may change what (astria design: the IBC sudo address itself is set by the chain sudo; the relayer set by IBC sudo)
SUDO_CLASSES = {"sudo", "ibc_sudo", "fee_schedule", "fee_asset", "validators", "price_feed"}
IBC_SUDO_CLASSES = {"ibc_relayer"}
BRIDGE_SUDO_CLASSES = {"bridge_sudo", "bridge_withdrawer", "bridge_disabled"}


def run(v, workdir, replay):
    v.rule = ("case = one successful transaction execution whose every changed state key is attributed to an authority; distinct "
              "non-trivial = distinct (changed key classes, signer role) cells, plus distinct (attack intent, refusal stage) cells")
    v.assumptions = ["authority is read from the raw pre-state bytes", "end-of-block system writes are judged by C01"]
    hists = chainlog.run_chain(v, workdir, "authz")
    check(v, hists)
    v.need("successful_executions", 300 if v.tier == "quick" else 8000)
    v.need("attacks_refused", 30)
    for c in ("sudo", "ibc_sudo", "fee_schedule", "fee_asset", "validators", "ibc_relayer", "bridge_sudo_or_withdrawer", "withdrawal_event"):
        v.need("legit_change:" + c, 1)
    v.need("attack:not_sudo", 5)
    v.need("attack:not_ibc_sudo", 1)
    v.need("attack:not_withdrawer", 2)
    v.need("former_authority_attempts", 1)
    v.need("attack:reinit_of_existing_bridge_by_its_own_key", 5)
    v.need("attack:reinit_of_a_disabled_bridge_by_its_own_key", 1)


def key_addr(b64):
    return b64.replace("+", "-").replace("/", "_")


def check(v, hists):
    for h in hists:
        uni = h.genesis["universe"]
        genesis_sudo, genesis_ibc_sudo = uni["sudo"], uni["ibc_sudo"]
        for e in h.events:
            if e.get("kind") == "tx_built" and "attack_reinit_existing_bridge" in e.get("intent", ""):
                v.saw("attack:reinit_of_existing_bridge_by_its_own_key")
                if "_disabled" in e["intent"]:
                    v.saw("attack:reinit_of_a_disabled_bridge_by_its_own_key")
        for o in chainlog.walk(h):
            if o.where == "packet":
                continue
            intent = (o.tx or {}).get("intent", "?")
            attack = "attack" in intent
            if attack:
                for a in ("not_sudo", "not_ibc_sudo", "not_withdrawer"):
                    if a in intent:
                        v.saw("attack:" + a)
                # a former authority trying again
                if o.tx and o.tx["signer"] in (8, 9):
                    cur = chainlog.addr_of(o.pre["authority/sudo"]) if o.tx["signer"] == 8 else chainlog.addr_of(o.pre["ibc/sudo"])
                    if cur != (genesis_sudo if o.tx["signer"] == 8 else genesis_ibc_sudo):
                        v.saw("former_authority_attempts")
            if o.result != "ok":
                if attack:
                    v.saw("attacks_refused")
                    v.cell("attack", intent.split(":")[-2] if intent.count(":") >= 2 else intent, o.result.split(":")[0])
                continue
            v.evaluations += 1
            v.saw("successful_executions")
            pre = o.pre
            sudo = chainlog.addr_of(pre["authority/sudo"]) if "authority/sudo" in pre else None
            ibc_sudo = chainlog.addr_of(pre["ibc/sudo"]) if "ibc/sudo" in pre else None
            wit = {"hist": list(o.hist), "height": o.height, "at": o.where, "trial": o.trial, "tx": o.tx, "signer": o.signer,
                   "sudo": sudo, "ibc_sudo": ibc_sudo, "diff": o.diff}
            multi_authority_change = o.tx is not None and len(o.tx["actions"]) > 1 and any(
                a["kind"] in ("sudo_address_change", "ibc_sudo_change", "bridge_sudo_change") for a in o.tx["actions"])
            classes = set()
            for k, (old, new) in o.diff.items():
                c = chainlog.classify_key(k)
                cls = c[0]
                if cls == "unknown":
                    raise runner.Inconclusive("unclassified state key changed by a transaction: " + k)
                if cls == "balance":
                    delta = (chainlog.u128_of(new) if new else 0) - (chainlog.u128_of(old) if old else 0)
                    if delta < 0 and c[1] != o.signer:
                        w = pre.get("bridge/withdrawer/" + key_addr(c[1]))
                        is_bridge = ("bridge/account/%s/rollup_id" % key_addr(c[1])) in pre
                        if not (is_bridge and w and chainlog.addr_of(w) == o.signer):
                            v.violate("C02/balance-decreased-without-authority/" + ("bridge" if is_bridge else "plain"),
                                      "balance of %s decreased by a transaction signed by %s who is neither the owner nor the bridge's withdrawer" % (c[1], o.signer), wit)
                    continue
                if cls == "nonce":
                    if c[1] != o.signer:
                        v.violate("C02/foreign-nonce-changed", "nonce of another account changed", wit)
                    continue
                if multi_authority_change:
                    continue
                if cls in SUDO_CLASSES:
                    classes.add(cls)
                    v.saw("legit_change:" + cls)
                    if o.signer != sudo:
                        v.violate("C02/sudo-state-changed-by-non-sudo/" + cls, "%s changed by %s while sudo is %s" % (k, o.signer, sudo), wit)
                elif cls in IBC_SUDO_CLASSES:
                    classes.add(cls)
                    v.saw("legit_change:" + cls)
                    if o.signer != ibc_sudo:
                        v.violate("C02/ibc-sudo-state-changed-by-non-ibc-sudo/" + cls, "%s changed by %s while IBC sudo is %s" % (k, o.signer, ibc_sudo), wit)
                elif cls in BRIDGE_SUDO_CLASSES or cls in ("bridge_rollup_id", "bridge_asset_id"):
                    classes.add(cls)
                    bridge = c[1]
                    existed = ("bridge/account/%s/rollup_id" % key_addr(bridge)) in pre
                    if not existed:
                        if o.signer != bridge:
                            v.violate("C02/bridge-created-for-foreign-account", "bridge state of %s created by %s" % (bridge, o.signer), wit)
                    else:
                        v.saw("legit_change:bridge_sudo_or_withdrawer")
                        bs = pre.get("bridge/sudo/" + key_addr(bridge))
                        if cls in ("bridge_rollup_id", "bridge_asset_id") or not bs or chainlog.addr_of(bs) != o.signer:
                            v.violate("C02/bridge-admin-state-changed-by-non-bridge-sudo/" + cls, "%s changed by %s" % (k, o.signer), wit)
                elif cls == "withdrawal_event":
                    classes.add(cls)
                    v.saw("legit_change:withdrawal_event")
                    w = pre.get("bridge/withdrawer/" + key_addr(c[1]))
                    if not w or chainlog.addr_of(w) != o.signer:
                        v.violate("C02/withdrawal-recorded-by-non-withdrawer", "withdrawal event of bridge %s recorded by %s" % (c[1], o.signer), wit)
                elif cls == "bridge_last_tx":
                    if c[1] != o.signer:
                        v.violate("C02/bridge-last-tx-by-other", "bridge last-tx id of %s written by %s" % (c[1], o.signer), wit)
            role = "sudo" if o.signer == sudo else ("ibc_sudo" if o.signer == ibc_sudo else "user")
            v.cell("+".join(sorted(classes)) or "funds_only", role)
            if len(v.samples) < 4 and classes:
                v.sample({"signer_role": role, "changed_privileged_classes": sorted(classes), "intent": intent})
