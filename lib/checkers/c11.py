"""C11 Relayer never skips a sequencer block on Celestia across any crash/restart.

Harness: /verif/harness/relayer/crash.rs (real BlobSubmitter + state file + CelestiaClient against a fake Celestia app, stopped at
enumerated RPC events / future polls and restarted the way Relayer::run restarts). Oracle per run, over the event log in order:
 * landed BlobTxs: after every inclusion the set of confirmed sequencer heights is gap-free from the first relayed height
   (duplicates are fine);
 * every observation of the state file (at every RPC event, every restart, every session end) parses with an independent
   JSON reader and satisfies the file's own sanity rule; the height it records as submitted is covered: every height from
   the first relayed one up to it is in a BlobTx that Celestia had included at that moment;
 * every restart reads the file successfully (also with a truncated temp file left behind); the feed is resumed where the
   code says (last_completed_sequencer_height()+1), so a wrong resume point shows up as a gap at the next inclusion.
Bounded progress is reported, not judged: after the faults stop, the calm session is expected to bring Celestia up to the tip."""
import collections
import json

import runner

LEVEL = "fault_enumeration"
FIRST = 1


def run(v, workdir, replay):
    thorough = v.tier == "thorough"
    v.rule = ("case = one run of the relayer's submitter over a scripted Celestia, stopped at one enumerated point (k-th RPC arrival/reply or n-th poll of "
              "the submitter future), optionally a second time, and restarted from its state file until the tip is confirmed; distinct non-trivial = "
              "distinct (stop kind, state at restart, outcome of the in-flight BlobTx, recovery path) cells")
    v.assumptions = ["a process stop is modelled as dropping the submitter's future at a suspension point; file operations already handed to the blocking pool "
                     "complete (equivalent to a stop a moment later); rename is atomic; power loss / fsync ordering is out of scope",
                     "the block reader is replaced by the harness feeding blocks from last_completed_sequencer_height()+1 exactly as Relayer::run seeds its stream",
                     "virtual time (paused tokio clock); downtime between stop and restart is modelled by ageing the `at` field of a prepared state"]
    exe = runner.build_crate_tests("astria-sequencer-relayer", workdir)
    env = {"VERIF_BASES": "12", "VERIF_EVENT_POINTS": "400", "VERIF_POLL_POINTS": "160", "VERIF_SECOND_POINTS": "60"} if thorough else \
          {"VERIF_BASES": "2", "VERIF_EVENT_POINTS": "24", "VERIF_POLL_POINTS": "14", "VERIF_SECOND_POINTS": "6"}
    runner.run_entry(exe, "relayer::write::verif::crash::crash_restart", workdir, v, nshards=16, timeout=6000 if thorough else 1500, env=env)
    events = list(runner.read_events(workdir, prefix="events-c11-crash"))
    runner.check_started_ended(events)
    check(v, events)
    q = not thorough
    v.need("runs", 300 if q else 20000)
    v.need("landed_txs", 600 if q else 40000)
    v.need("state_observations", 2000 if q else 100000)
    v.need("restart:prepared", 60)
    v.need("restart:started", 20)
    v.need("restart:fresh", 20)
    v.need("prepared_then_confirmed", 10)
    v.need("prepared_then_reverted", 10)
    v.need("stop:poll", 80)
    for k in ("broadcast_tx:arrive", "broadcast_tx:reply", "get_tx:arrive", "get_tx:reply", "query_account:reply"):
        v.need("stop:rpc:" + k, 3)
    v.need("duplicate_heights_landed", 5)
    v.need("second_stop_runs", 10)
    v.need("restart_with_differing_temp_file", 5)
    v.need("outcome:evicted", 5)
    v.need("outcome:hang", 5)
    v.need("outcome:status_err", 5)
    v.need("outcome:code_32", 5)
    v.need("runs_completed", 250 if q else 18000)
    done, total = v.must_see.get("runs_completed", [0])[0], v.must_see.get("runs", [0])[0]
    if total and done < 0.95 * total:
        raise runner.Inconclusive("only %d of %d runs reached the tip in the calm session; bounded progress is too weak to say the workload exercised recovery" % (done, total))


def parse_state(raw):
    """Independent reader of the submission-state file. Returns (kind, recorded_height, prepared_height) or raises ValueError."""
    d = json.loads(raw)
    if not isinstance(d, dict):
        raise ValueError("not an object")
    st = d.get("state")

    def last(x):
        ls = x.get("last_submission")
        if not isinstance(ls, dict) or not isinstance(ls.get("sequencer_height"), int) or not isinstance(ls.get("celestia_height"), int):
            raise ValueError("last_submission malformed")
        if ls["sequencer_height"] < 0 or ls["celestia_height"] < 0:
            raise ValueError("negative height")
        return ls["sequencer_height"]

    if st == "fresh":
        return "fresh", 0, None
    if st == "started":
        return "started", last(d), None
    if st == "prepared":
        h = d.get("sequencer_height")
        if not isinstance(h, int) or not isinstance(d.get("blob_tx_hash"), str) or not isinstance(d.get("at"), str):
            raise ValueError("prepared state malformed")
        l = last(d)
        if h <= l:
            raise ValueError("prepared height %d not above last submission %d" % (h, l))
        return "prepared", l, h
    raise ValueError("unknown state %r" % (st,))


def check(v, events):
    runs = collections.OrderedDict()
    for e in events:
        if "scen" in e:
            runs.setdefault((e["_file"], e["scen"]), []).append(e)
    for key, evs in runs.items():
        head = [e for e in evs if e["kind"] == "scenario"]
        if not head:
            continue
        head = head[0]
        v.saw("runs")
        v.evaluations += 1
        if "+" in head["variant"]:
            v.saw("second_stop_runs")
        landed = set()
        landed_count = collections.Counter()
        reported = set()
        pending_prepared = None   # (prepared height, last height) seen at the latest prepared restart
        last_stop = "none"
        cellparts = []
        trail = []

        def wit(e, extra=None):
            w = {"run": list(key), "scenario": head, "event": e, "confirmed_heights": sorted(landed), "recent": trail[-12:]}
            if extra:
                w.update(extra)
            return w

        def judge_state(raw, e, where):
            nonlocal pending_prepared
            v.saw("state_observations")
            try:
                kind, recorded, prepared = parse_state(raw)
            except ValueError as err:
                if "state-unreadable" not in reported:
                    reported.add("state-unreadable")
                    v.violate("C11/state-file-unreadable/" + where, "the submission state file is not readable (%s): %r" % (err, raw[:200]), wit(e))
                return None
            missing = [h for h in range(FIRST, recorded + 1) if h not in landed]
            if missing and "unconfirmed" not in reported:
                reported.add("unconfirmed")
                v.violate("C11/state-records-unconfirmed-height/" + kind,
                          "state file (%s) records height %d as submitted but heights %s were not in any BlobTx included by Celestia at that moment" % (kind, recorded, missing[:8]), wit(e))
            if kind == "started" and pending_prepared is not None:
                p, l = pending_prepared
                if recorded == p:
                    v.saw("prepared_then_confirmed")
                    cellparts.append("confirmed")
                elif recorded == l:
                    v.saw("prepared_then_reverted")
                    cellparts.append("reverted")
                pending_prepared = None
            return kind, recorded, prepared

        for e in evs:
            k = e["kind"]
            if k in ("landed", "evicted", "session_start", "session_end", "broadcast"):
                trail.append({x: e[x] for x in e if x in ("kind", "session", "heights", "t_ms", "reason", "startup", "last_completed", "feed_from", "outcome", "fate", "hash", "state_raw")})
            if k == "landed":
                v.saw("landed_txs")
                hs = e["heights"]
                for h in hs:
                    landed_count[h] += 1
                    if landed_count[h] == 2:
                        v.saw("duplicate_heights_landed")
                landed.update(hs)
                missing = [h for h in range(FIRST, max(landed) + 1) if h not in landed]
                if missing and "gap" not in reported:
                    reported.add("gap")
                    v.violate("C11/gap-on-celestia/after:" + last_stop.split(":")[0],
                              "Celestia included a BlobTx carrying heights %s while heights %s are confirmed nowhere" % (hs, missing[:8]), wit(e))
            elif k == "evicted":
                v.saw("outcome:evicted")
            elif k == "broadcast":
                o = e["outcome"].split("(")[0]
                v.saw("outcome:" + o)
            elif k == "state":
                judge_state(e["raw"], e, "while-running")
            elif k == "session_start":
                v.saw("sessions")
                st = e["startup"]
                if st.startswith("error:"):
                    if "restart" not in reported:
                        reported.add("restart")
                        v.violate("C11/restart-cannot-read-state-file", "restart failed on the state file: %s" % st[:300], wit(e))
                    continue
                r = judge_state(e["state_raw"], e, "at-restart")
                if e["session"] > 0:
                    v.saw("restart:" + st)
                    cellparts.append("restart:" + st)
                    if e.get("tmp_raw") is not None and e["tmp_raw"] != e["state_raw"]:
                        v.saw("restart_with_differing_temp_file")
                if r and r[0] == "prepared":
                    pending_prepared = (r[2], r[1])
                # resume point of the block feed above what is confirmed: observed only; if the skipped heights never make it
                # while later ones do, the gap rule above reports it (a resume point alone is not yet a skipped block)
                top = max(landed) if landed else FIRST - 1
                if e["feed_from"] > top + 1:
                    v.saw("resume_point_above_confirmed_heights")
            elif k == "session_end":
                reason = e["reason"]
                if reason.startswith("stopped_at_rpc:"):
                    v.saw("stop:rpc:" + reason.split(":", 1)[1])
                    last_stop = "rpc:" + reason.split(":", 1)[1]
                elif reason == "stopped_at_poll":
                    v.saw("stop:poll")
                    last_stop = "poll"
                elif reason == "stopped_at_deadline":
                    v.saw("stop:deadline")
                    last_stop = "deadline"
                elif reason.startswith("panicked"):
                    v.saw("session_panicked")
                    if "panic" not in reported:
                        reported.add("panic")
                        v.violate("C11/relayer-panicked", "the submitter panicked: %s" % reason[:200], wit(e))
                elif reason.startswith("returned_err"):
                    v.saw("session_returned_error")
                cellparts.append(last_stop if reason.startswith("stopped") else reason.split(":")[0])
                if e.get("state_raw"):
                    judge_state(e["state_raw"], e, "at-session-end")
            elif k == "scenario_end":
                if e["completed"]:
                    v.saw("runs_completed")
                else:
                    v.saw("runs_not_completed")
                    cellparts.append("not_completed")
        v.cell(*cellparts[:6])
        if len(v.samples) < 4 and len(cellparts) > 3:
            v.sample({"variant": head["variant"], "fates": head["fates"], "path": cellparts, "confirmed_heights": sorted(landed)})
