"""C16 Composer bundles each accepted transaction once, in order, within the size limit.

Harness: /verif/harness/composer/executor.rs (real BundleFactory, op words). Oracle over each recorded word:
 * accepted payload ids (push returned ok) must come out exactly once, in acceptance order, across all bundles popped
   during the word and the final drain (finished queue first-in first-out, then the current bundle);
 * the sum of the encoded action sizes of every emitted bundle (recomputed from the emitted actions) <= max, and
   equals the size the bundle reports;
 * a refusal is legal only if the action alone exceeds max, or the finished queue was full (independent count kept by
   a small sequential model) and the action did not fit the current bundle;
 * dropping the next-finished handle un-popped loses nothing (covered by exactly-once)."""
import runner

LEVEL = "exploration"


def run(v, workdir, replay):
    thorough = v.tier == "thorough"
    v.rule = ("case = one op word over {push x 6 size classes around max, pop finished, peek-and-drop, pop_now} on a fresh BundleFactory, "
              "followed by a drain; distinct non-trivial = distinct (capacity, multiset of op outcomes) cells among words with >= 1 accepted push; "
              "all words up to length 5 (quick) / 6 (thorough) are enumerated for capacities 0..2")
    v.assumptions = ["encoded size = prost encoded_len of the action as emitted"]
    exe = runner.build_crate_tests("astria-composer", workdir)
    runner.run_entry(exe, "executor::verif::bundle_words", workdir, v, nshards=16, timeout=2400,
                     env={"VERIF_WORD_LEN": "6" if thorough else "5", "VERIF_RANDOM_WORDS": "20000" if thorough else "1500"})
    events = list(runner.read_events(workdir))
    runner.check_started_ended(events)
    check(v, events)
    v.exhaustive = False
    v.extra["exhaustive_subspace"] = "all op words of length <= %d over 9 ops for finished-queue capacities 0, 1, 2" % (6 if thorough else 5)
    v.need("words", 100000)
    v.need("refused_too_large", 1000)
    v.need("refused_queue_full", 1000)
    v.need("exact_fit_bundles", 100)
    v.need("peek_drop_with_pending_bundle", 100)
    v.need("multi_bundle_words", 1000)


def check(v, events):
    for e in events:
        if e.get("kind") != "word":
            continue
        v.evaluations += 1
        v.saw("words")
        cap, mx = e["cap"], e["max"]
        accepted, emitted = [], []
        cur, finished = 0, 0        # model: bytes in the current bundle, number of finished bundles
        cur_n = 0
        outcomes = []
        wit = {"cap": cap, "max": mx, "ops": e["ops"], "drain": e["drain"]}

        def bundle(ids, sizes, reported, where):
            if sum(sizes) > mx:
                v.violate("C16/bundle-exceeds-max-size", "a bundle of %d bytes was emitted (max %d) by %s" % (sum(sizes), mx, where), wit)
            if sum(sizes) != reported:
                v.violate("C16/reported-size-differs", "bundle reports %d bytes but its actions encode to %d" % (reported, sum(sizes)), wit)
            if sum(sizes) == mx:
                v.saw("exact_fit_bundles")
            emitted.extend(ids)

        for op in e["ops"]:
            if op[0] == "push":
                _, cname, pid, size, full_before, r = op
                outcomes.append(r.split(":")[0])
                if r.startswith("panic"):
                    v.violate("C16/panic-in-try_push", "try_push panicked: " + r, wit)
                    continue
                fits = cur + size <= mx
                if full_before != (finished >= cap):
                    v.violate("C16/is_full-disagrees-with-model", "is_full()=%s but %d finished bundles, capacity %d" % (full_before, finished, cap), wit)
                if r == "ok":
                    accepted.append(pid)
                    if size > mx:
                        v.violate("C16/oversized-action-accepted", "an action of %d bytes was accepted (max %d)" % (size, mx), wit)
                    if fits:
                        cur += size
                        cur_n += 1
                    else:
                        finished += 1
                        cur, cur_n = size, 1
                elif r == "too_large":
                    v.saw("refused_too_large")
                    if size <= mx:
                        v.violate("C16/refused-although-it-fits-a-bundle", "an action of %d bytes was refused as too large (max %d)" % (size, mx), wit)
                elif r == "queue_full":
                    v.saw("refused_queue_full")
                    if size > mx or fits or finished < cap:
                        v.violate("C16/refused-although-queue-not-full", "refused with queue-full although finished=%d cap=%d fits_current=%s" % (finished, cap, fits), wit)
            elif op[0] == "pop_finished":
                if op[1] is None:
                    outcomes.append("pop_none")
                    if finished:
                        v.violate("C16/finished-bundle-not-offered", "no finished bundle offered although %d are queued" % finished, wit)
                else:
                    outcomes.append("pop")
                    if not finished:
                        v.violate("C16/unfinished-bundle-popped-as-finished", "a bundle was handed out as finished while none was", wit)
                    finished = max(0, finished - 1)
                    bundle(op[1], op[2], op[3], "pop_finished")
            elif op[0] == "peek_drop":
                outcomes.append("peek")
                if op[1]:
                    v.saw("peek_drop_with_pending_bundle")
                if op[1] != (finished > 0):
                    v.violate("C16/next_finished-disagrees-with-model", "next_finished().is_some()=%s with %d finished" % (op[1], finished), wit)
            else:
                outcomes.append("pop_now")
                bundle(op[1], op[2], op[3], "pop_now")
                if finished:
                    finished -= 1
                else:
                    cur, cur_n = 0, 0
        nb = 0
        for ids, sizes, reported in e["drain"]:
            nb += 1
            bundle(ids, sizes, reported, "drain")
        if nb + sum(1 for o in outcomes if o in ("pop", "pop_now")) >= 3:
            v.saw("multi_bundle_words")
        if emitted != accepted:
            lost = [i for i in accepted if i not in emitted]
            dup = sorted({i for i in emitted if emitted.count(i) > 1})
            what = "lost" if lost else ("duplicated" if dup else "reordered")
            v.violate("C16/accepted-transactions-" + what, "accepted %s but emitted %s" % (accepted, emitted), wit)
        if accepted:
            v.cell(cap, tuple(sorted(outcomes)))
        if len(v.samples) < 4 and len(accepted) >= 3 and "queue_full" in outcomes:
            v.sample({"cap": cap, "ops": [[o[0]] + ([o[1], o[5]] if o[0] == "push" else [o[1]]) for o in e["ops"]], "emitted": emitted})
