"""C15 Oracle prices need >2/3 validly signed extensions and stay within the reported range.

Harness: /verif/harness/seq/app/oracle.rs (real ProposalHandler::validate_proposal / prepare_proposal / price aggregation
on a post-Aspen ChainSim state, harness-signed vote extensions). Oracle (exact integers; validity known by construction):
 accepted  =>  the extended commit matches the last commit (round, number, addresses, powers, flags), every commit-flag
               vote is validly signed by the validator it is attributed to, no validator is listed twice, every listed
               voter is a validator, non-commit votes carry no extension, and 3 * power(commit-flag votes) > 2 * power(all listed);
 an EMPTY extended commit with matching round is always accepted;
 every published price lies within [min, max] of the prices reported for that pair in that commit;
 prepare_proposal never panics / fails hard on any vote set (it prunes)."""
import runner

LEVEL = "exploration"


def run(v, workdir, replay):
    thorough = v.tier == "thorough"
    v.rule = ("case = one extended commit (power vector x signer subset x defect) judged by validate_proposal, with prices aggregated when "
              "accepted; distinct non-trivial = distinct (total mod 3, margin class, defect class, accepted) cells for commits with >= 1 signer "
              "plus distinct (number of reporters parity, sign mix) cells for published prices; the power alphabet {1,2,3,5,10,33,34,67,100} "
              "is enumerated completely for <=3 (quick) / <=4 (thorough) validators x all signer subsets")
    v.assumptions = ["signature validity and last-commit agreement are known by construction", "ed25519 is trusted",
                     "the state under the handler is a post-Aspen ChainSim snapshot with the validator entries replaced per case"]
    exe = runner.build_crate_tests("astria-sequencer", workdir)
    runner.run_entry(exe, "app::verif::oracle::oracle_sweep", workdir, v, nshards=16, timeout=3000)
    events = list(runner.read_events(workdir, prefix="events-c15"))
    runner.check_started_ended(events)
    check(v, events)
    v.need("cases", 5000)
    v.need("accepted", 500)
    v.need("empty_commits_accepted", 50)
    for m in ("just_above", "just_below"):
        for r in range(3):
            v.need("margin:%s:mod%d" % (m, r), 2)
    v.need("margin:eq:mod0", 2)
    for c in ("one_bad_signature", "one_bad_extension", "duplicate_voter", "outsider_votes", "last_commit_mismatch", "nil_with_extension"):
        v.need("class:" + c, 50)
    v.need("prices_checked", 1000)
    v.need("even_count_medians", 100)
    v.need("negative_prices_reported", 100)


def check(v, events):
    base = [e for e in events if e.get("kind") == "oracle_base"]
    if not base or not base[0]["pairs"]:
        raise runner.Inconclusive("the base chain has no currency pairs: nothing to publish")
    for e in events:
        k = e.get("kind")
        if k == "oracle_empty":
            v.evaluations += 1
            if e["accepted"]:
                v.saw("empty_commits_accepted")
            else:
                v.violate("C15/empty-extended-commit-rejected", "an empty extended commit with matching round was rejected: %s" % e["err"], e)
            continue
        if k != "oracle_case":
            continue
        v.evaluations += 1
        v.saw("cases")
        v.saw("class:" + e["class"])
        powers, votes = e["powers"], e["votes"]
        wit = {kk: e[kk] for kk in ("class", "commit_mode", "powers", "votes", "round", "accepted", "err", "published")}
        if e["panic"]:
            v.violate("C15/panic-in-validate-proposal", "validate_proposal panicked: " + e["err"][:150], wit)
            continue
        if e["prepare"].startswith("panic"):
            v.violate("C15/panic-in-prepare-proposal", "prepare_proposal panicked: " + e["prepare"][:150], wit)
        listed = [(x["v"], x) for x in votes]
        total = sum(powers[i] if i >= 0 else 7 for i, _ in listed)
        commit = [(i, x) for i, x in listed if x["flag"] == "commit"]
        signed = sum(powers[i] if i >= 0 else 7 for i, _ in commit)
        ok = e["commit_mode"] == "match"
        ok = ok and all(i >= 0 for i, _ in listed)
        ok = ok and len({i for i, _ in listed}) == len(listed)
        ok = ok and all(x["sig"] == "valid" for _, x in commit)
        ok = ok and all(x["sig"] != "nil_with_extension" for _, x in listed)
        quorum = 3 * signed > 2 * total
        d = 3 * signed - 2 * total
        mc = "eq" if d == 0 else ("just_above" if 0 < d <= 3 else ("just_below" if -3 <= d < 0 else ("above" if d > 0 else "below")))
        if votes:
            v.saw("margin:%s:mod%d" % (mc, total % 3))
        if commit:
            v.cell(total % 3, mc, e["class"], e["accepted"])
        if e["accepted"]:
            v.saw("accepted")
            if not votes:
                pass
            elif not ok:
                why = "last-commit-mismatch" if e["commit_mode"] != "match" else e["class"]
                v.violate("C15/invalid-extended-commit-accepted/" + why, "validate_proposal accepted an extended commit with defect %s" % why, wit)
            elif not quorum:
                v.violate("C15/accepted-without-two-thirds-power", "accepted with signing power %d of listed %d" % (signed, total), wit)
            # price range
            if isinstance(e["published"], dict):
                v.violate("C15/price-aggregation-failed", "aggregation failed on an accepted commit: %s" % e["published"], wit)
                continue
            id2pair = {i: p for i, p in e["pair_ids"]}
            reported = {}
            for _, x in commit:
                if x["ext"] in ("garbage", "price_too_long"):
                    continue
                for pid, price in x["prices"]:
                    if pid in id2pair:
                        reported.setdefault(id2pair[pid], []).append(int(price))
            for pair, price in e["published"] or []:
                v.saw("prices_checked")
                rep = reported.get(pair, [])
                p = int(price)
                if len(rep) % 2 == 0 and rep:
                    v.saw("even_count_medians")
                if any(r < 0 for r in rep):
                    v.saw("negative_prices_reported")
                v.cell("price", len(rep) % 2, "neg" if all(r < 0 for r in rep) else ("mixed" if any(r < 0 for r in rep) else "pos"))
                if not rep:
                    v.violate("C15/price-published-without-report", "a price was published for %s which nobody reported" % pair, wit)
                elif not (min(rep) <= p <= max(rep)):
                    srt = sorted(rep)
                    mid = srt[len(srt) // 2 - 1:len(srt) // 2 + 1]
                    cls = "negative-odd-pair" if len(rep) % 2 == 0 and all(m < 0 and m % 2 == 1 for m in mid) else "other"
                    v.violate("C15/published-price-outside-reported-range/" + cls,
                              "published %d for %s but reports range over [%d, %d]" % (p, pair, min(rep), max(rep)), dict(wit, pair=pair, reported=[str(r) for r in srt]))
            if len(v.samples) < 4 and len(commit) >= 2 and e["published"]:
                v.sample({"powers": powers, "signers": [i for i, _ in commit], "published": e["published"][:2]})
        else:
            if ok and quorum and votes and all(x["ext"] == "ok" for _, x in listed):
                v.saw("valid_quorum_commits_rejected")
                v.extra.setdefault("liveness_observation_rejected_valid", []).append(wit) if len(v.extra.get("liveness_observation_rejected_valid", [])) < 3 else None
