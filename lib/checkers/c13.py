"""C13 Mempool keeps nonce order and never duplicates or silently loses a transaction.

Harness: /verif/harness/seq/mempool.rs (real Mempool, private structure read under its own lock after every operation).
Oracle (offline, over the op log):
 I1 a tx id is never in both pending and parked; tracked set == pending U parked;
 I2 every accepted id is in exactly one place: pending, parked, or reported Removed(reason) at the first observation
    after it left the pools (until the bounded caches may have evicted it: runs stay far below the bounds);
 I3 pending nonces of an account are consecutive;
 I4 after a maintenance run against a chain state: no tx with nonce < chain nonce remains anywhere, and the lowest
    pending nonce equals the chain nonce shown;
 I5 after an operation that validated an account's ready set (accepting insert, maintenance): the ready transactions are
    jointly affordable from the balances shown to that operation;
 I6 the block-building order never places a higher nonce of an account before a lower one of the same action group;
 I7 parked per account <= limit, parked in total <= configured limit."""
import collections

import runner

LEVEL = "exploration"


def run(v, workdir, replay):
    thorough = v.tier == "thorough"
    v.rule = ("case = one mempool operation followed by a structure walk + status sweep; distinct non-trivial = distinct (operation, result "
              "class, resulting transitions among pending/parked/removed) cells over operations that changed the structure")
    v.assumptions = ["callers show non-decreasing nonces (documented contract)", "costs are those reported by CheckedTransaction::total_costs",
                     "workloads stay below the removal / execution-result cache bounds so eviction cannot explain a missing status"]
    exe = runner.build_crate_tests("astria-sequencer", workdir)
    runner.run_entry(exe, "mempool::verif::model_walk", workdir, v, nshards=16, timeout=2400,
                     env={"VERIF_RUNS": "40" if thorough else "4", "VERIF_OPS": "1500" if thorough else "350"})
    # schedule diversity: CheckTx tasks, readers and the consensus side concurrently on one Mempool (multi-thread runtime)
    runner.run_entry(exe, "mempool::verif::conc_stress", workdir, v, nshards=16, timeout=2400,
                     env={"VERIF_CONC_RUNS": "12" if thorough else "2", "VERIF_CONC_ROUNDS": "10" if thorough else "6"})
    events = list(runner.read_events(workdir))
    runner.check_started_ended(events)
    check(v, events)
    v.need("conc_rounds", 150)
    v.need("conc_checktx_returns", 5000)
    v.need("conc_status_reads", 500)
    v.need("conc_queue_reads", 500)
    v.need("conc_same_bytes_from_two_tasks", 50)
    v.need("conc_distinct_outcome_orders", 100)
    v.need("conc_lock_sections", 2000)
    v.need("conc_walks_between_maintenance_runs", 300)
    v.need("conc_inserts_ordered_before_a_maintenance_that_must_remove_them", 20)
    v.need("ops", 10000 if not thorough else 300000)
    for t in ("promotion", "demotion", "expiry", "cascade_removal", "recost_moves", "included", "parked_total_limit_hit"):
        v.need(t, 2)
    v.need("big_demotion", 1)


def check(v, events):
    runs = collections.OrderedDict()
    for e in events:
        if "run" in e:
            runs.setdefault((e["_file"], e["run"]), []).append(e)
    for key, evs in runs.items():
        start = [e for e in evs if e["kind"] == "mp_start"][0]
        per_acct_max, total_max = start["per_account_parked_max"], start["parked_max"]
        info = {}      # id -> (acct, nonce, group, costs)
        place = {}     # id -> last place
        gone = set()   # ids observed removed (no longer tracked)
        conc_acc = collections.defaultdict(dict)   # round -> id -> tx meta (accepted by some CheckTx of that round)
        if start.get("mode") == "concurrent":
            concurrent_part(v, key, evs, conc_acc)
        for e in evs:
            if e["kind"] != "mp_op":
                continue
            if e["op"]["op"] == "conc_round":
                for i, m in conc_acc.get(e["n"], {}).items():
                    info[i] = {"acct": m["acct"], "nonce": m["nonce"], "group": m["group"], "costs": {a: int(n) for a, n in m["costs"].items()}}
                    gone.discard(i)
                v.saw("conc_rounds")
            v.evaluations += 1
            v.saw("ops")
            op, w = e["op"], e["walk"]
            wit = {"run": list(key), "n": e["n"], "op": op}
            pend = {i: (a, n) for a, lst in w["pending"].items() for n, i in lst}
            park = {i: (a, n) for a, lst in w["parked"].items() for n, i in lst}
            if op["op"] == "insert" and not op["result"].startswith("err"):
                info[op["id"]] = {"acct": op["acct"], "nonce": op["nonce"], "group": op["group"], "costs": {a: int(n) for a, n in op["costs"].items()}}
                gone.discard(op["id"])
            if op["op"] == "insert" and "ParkedSizeLimit" in op["result"]:
                v.saw("parked_total_limit_hit")
            if e.get("recosted"):
                for i, c in e["recosted"].items():
                    if i in info:
                        info[i]["costs"] = {a: int(n) for a, n in c.items()}
            # I1
            both = set(pend) & set(park)
            if both:
                v.violate("C13/in-pending-and-parked", "transaction in both pending and parked", dict(wit, ids=sorted(both)[:3]))
            if set(w["contained"]) != set(pend) | set(park):
                v.violate("C13/tracked-set-differs-from-pools", "tracked ids differ from pending U parked",
                          dict(wit, only_tracked=sorted(set(w["contained"]) - set(pend) - set(park))[:3], only_pools=sorted((set(pend) | set(park)) - set(w["contained"]))[:3]))
            # I2 + transitions
            prev_place = dict(place)
            trans = set()
            for i in info:
                if i in gone:
                    continue
                now = "pending" if i in pend else ("parked" if i in park else None)
                st = e["status"].get(i, "none")
                if now is None:
                    if not st.startswith("removed"):
                        v.violate("C13/accepted-tx-vanished/after:%s" % op["op"] + ("+maintenance" if op.get("maintenance") else ""),
                                  "accepted transaction is neither pending nor parked and its status is %s" % st,
                                  dict(wit, id=i, tx=info[i], last_place=place.get(i)))
                    else:
                        trans.add((place.get(i), st))
                        if st == "removed:InternalError" and place.get(i) == "parked" and op["op"] != "conc_round":
                            # (sequential tier only: there the place recorded before this single operation is exact; at the end of a
                            # concurrent round a transaction last seen parked may have been promoted and then have failed a demotion
                            # into a full parked queue, which is a reported removal, not a loss)
                            # a parked transaction only leaves the pool by promotion, staleness, expiry or invalidation; an
                            # "internal error" removal means a promotion failed, i.e. the mempool picked a transaction its own
                            # ready set could not take
                            v.violate("C13/valid-parked-transaction-dropped/after:%s" % op["op"],
                                      "a parked transaction was dropped with an internal error (failed promotion)", dict(wit, id=i, tx=info[i]))
                        if st == "removed:InternalError":
                            v.saw("internal_error_removals")
                        if st == "removed:Expired":
                            v.saw("expiry")
                        if st == "removed:LowerNonceInvalidated":
                            v.saw("cascade_removal")
                        if st == "removed:IncludedInBlock":
                            v.saw("included")
                    gone.add(i)
                    continue
                if st != now:
                    v.violate("C13/status-disagrees-with-structure", "status says %s but the transaction is in %s" % (st, now), dict(wit, id=i))
                if place.get(i) == "parked" and now == "pending":
                    v.saw("promotion")
                    trans.add(("parked", "pending"))
                    if op["op"] == "fee_change":
                        v.saw("recost_moves")
                if place.get(i) == "pending" and now == "parked":
                    v.saw("demotion")
                    trans.add(("pending", "parked"))
                    if op["op"] == "fee_change":
                        v.saw("recost_moves")
                place[i] = now
            ndem = sum(1 for t in trans if t == ("pending", "parked"))
            demoted_now = [i for i in info if place.get(i) == "parked" and i in park]
            # I3
            for a, lst in w["pending"].items():
                nonces = [n for n, _ in lst]
                if nonces != list(range(nonces[0], nonces[0] + len(nonces))):
                    v.violate("C13/pending-nonces-not-consecutive", "ready nonces of %s are %s" % (a, nonces), wit)
            # I7
            for a, lst in w["parked"].items():
                if len(lst) > per_acct_max:
                    v.violate("C13/parked-per-account-limit-exceeded", "%s has %d parked transactions" % (a, len(lst)), wit)
            if len(park) > total_max:
                v.violate("C13/parked-total-limit-exceeded", "%d parked transactions in total (limit %d)" % (len(park), total_max), wit)
            # I4 / I5 after maintenance
            if op.get("maintenance"):
                for a, c in op["chain"].items():
                    for pool, name in ((w["pending"], "pending"), (w["parked"], "parked")):
                        for n, i in pool.get(a, []):
                            if n < c["nonce"]:
                                v.violate("C13/stale-nonce-remains-after-maintenance", "%s tx of %s with nonce %d remains although the chain nonce is %d" % (name, a, n, c["nonce"]), dict(wit, id=i))
                    lst = w["pending"].get(a, [])
                    if lst and lst[0][0] != c["nonce"]:
                        v.violate("C13/ready-set-does-not-start-at-chain-nonce", "lowest ready nonce of %s is %d, chain nonce shown is %d" % (a, lst[0][0], c["nonce"]), wit)
                    afford(v, wit, a, lst, info, {x: int(n) for x, n in c["balances"].items()})
                big = collections.Counter(info[i]["acct"] for i in info if i in park and place.get(i) == "parked")
            if op["op"] == "insert" and op["result"] == "pending":
                a = op["acct"]
                afford(v, wit, a, w["pending"].get(a, []), info, {x: int(n) for x, n in op["shown_balances"].items()})
            if op["op"] == "balance" and op["new"] == "0" and int(op["old"]) > 0:
                before = [i for i in info if info[i]["acct"] == op["acct"] and prev_place.get(i) == "pending"]
                if len(before) > per_acct_max:
                    v.saw("big_demotion")
            # I6
            seen = {}
            for a, n, g, i in e["queue"]:
                k = (a, g)
                if k in seen and seen[k] > n:
                    v.violate("C13/builder-queue-nonce-order", "builder queue places nonce %d of %s after %d (group %s)" % (n, a, seen[k], g), wit)
                seen[k] = max(seen.get(k, -1), n)
            if set(i for _, _, _, i in e["queue"]) != set(pend):
                v.violate("C13/builder-queue-differs-from-pending", "builder queue is not exactly the ready set", wit)
            if trans:
                v.cell(op["op"], (op.get("result") or "").split(":")[0], tuple(sorted(str(t) for t in trans)))
            if len(v.samples) < 4 and len(trans) >= 2:
                v.sample({"op": {k: op[k] for k in op if k not in ("chain", "shown_balances")}, "transitions": sorted(str(t) for t in trans)})


def afford(v, wit, acct, lst, info, balances):
    need = collections.Counter()
    for n, i in lst:
        if i in info:
            for a, c in info[i]["costs"].items():
                need[a] += c
    for a, c in need.items():
        if c > balances.get(a, 0):
            v.violate("C13/ready-set-not-affordable", "ready transactions of %s need %d of %s but %d was shown" % (acct, c, a[:12], balances.get(a, 0)), wit)
            return


def concurrent_part(v, key, evs, conc_acc):
    """Observations made *while* tasks were running (not at a quiescent point)."""
    round_ms = {e["n"]: e["op"].get("round_ms", 0) for e in evs if e["kind"] == "mp_op" and e["op"]["op"] == "conc_round"}
    accepted_at = {}            # id -> seq of the first accepting CheckTx return
    submitters = collections.defaultdict(set)
    order_sig = collections.defaultdict(list)
    for e in evs:
        k = e["kind"]
        if k == "mc_ret" and e["op"] == "check_tx":
            v.saw("conc_checktx_returns")
            v.saw("conc_outcome_" + e["class"])
            submitters[(e["round"], e["id"])].add(e["task"])
            order_sig[e["round"]].append((e["task"], e["class"]))
            if e["accepted"]:
                conc_acc[e["round"]][e["id"]] = e["tx"]
                accepted_at.setdefault(e["id"], e["seq"])
        elif k == "mc_ret" and e["op"] == "status":
            v.saw("conc_status_reads")
            v.saw("conc_status_" + e["status"].split(":")[0])
            if e["status"] == "none":
                wit = {"run": list(key), "round": e["round"], "id": e["id"], "seq": e["seq"], "accepted_at_seq": accepted_at.get(e["id"])}
                if round_ms.get(e["round"], 0) > 30000:
                    v.extra.setdefault("notes", []).append("status none in a round that lasted %d ms (execution-result retention is 60 s): not judged" % round_ms[e["round"]])
                elif e["id"] in accepted_at and accepted_at[e["id"]] < e["seq"]:
                    v.violate("C13/accepted-tx-vanished/concurrent-status-read", "a transaction accepted by CheckTx had no status (not ready, not parked, not "
                              "reported removed) when read concurrently with other operations", wit)
        elif k == "mc_queue":
            v.saw("conc_queue_reads")
            seen = {}
            for a, n, g, i in e["queue"]:
                kk = (a, g)
                if kk in seen and seen[kk] > n:
                    v.violate("C13/builder-queue-nonce-order", "builder queue (read concurrently) places nonce %d of %s after %d (group %s)" % (n, a, seen[kk], g),
                              {"run": list(key), "round": e["round"], "seq": e["seq"]})
                seen[kk] = max(seen.get(kk, -1), n)
            ids = [i for _, _, _, i in e["queue"]]
            if len(ids) != len(set(ids)):
                v.violate("C13/builder-queue-duplicate", "builder queue (read concurrently) lists a transaction twice", {"run": list(key), "round": e["round"], "seq": e["seq"]})
    # section order (guarded hook in the mempool: every insert, maintenance run and harness walk recorded under the lock):
    # a transaction inserted BEFORE a maintenance section that was shown a chain nonce above the transaction's nonce must be gone in
    # every walk after that maintenance (until it is inserted again)
    meta = {}
    for e in evs:
        if e["kind"] == "mc_ret" and e.get("op") == "check_tx" and e.get("accepted"):
            meta[e["id"]] = e["tx"]
    for e in evs:
        if e["kind"] != "mc_sections":
            continue
        rnd = e["round"]
        maint = [x for x in evs if x["kind"] == "mc_call" and x.get("op") == "maintenance" and x["round"] == rnd]
        walks = [x for x in evs if x["kind"] == "mc_walk" and x["round"] == rnd]
        mi = wi = 0
        inserted_at = {}       # id -> section index of its latest insert
        swept = {}             # id -> section index of the maintenance that must have removed it
        for idx, sec in enumerate(e["sections"]):
            v.saw("conc_lock_sections")
            kind = sec[0]
            if kind == "insert":
                inserted_at[sec[1]] = idx
                swept.pop(sec[1], None)
            elif kind == "maintenance":
                if mi >= len(maint):
                    break
                shown = maint[mi]["shown_nonces"]
                mi += 1
                for i, at in inserted_at.items():
                    m = meta.get(i)
                    if m and m["nonce"] < shown.get(m["acct"], 0):
                        swept.setdefault(i, idx)
                        v.saw("conc_inserts_ordered_before_a_maintenance_that_must_remove_them")
            elif kind == "walk":
                if wi >= len(walks):
                    break
                w = walks[wi]["walk"]
                wi += 1
                v.saw("conc_walks_between_maintenance_runs")
                present = {i for pool in (w["pending"], w["parked"]) for lst in pool.values() for _, i in lst}
                for i, at in swept.items():
                    if i in present:
                        v.violate("C13/stale-nonce-survived-maintenance/ordered-by-lock-sections",
                                  "a transaction inserted before a maintenance run (by the order of the mempool's lock sections) that was shown a higher chain nonce is still in the pools after it",
                                  {"run": list(key), "round": rnd, "id": i, "tx": meta.get(i), "insert_section": inserted_at.get(i), "maintenance_section": at, "walk_section": idx})
    for (rnd, i), tasks in submitters.items():
        if len(tasks) > 1:
            v.saw("conc_same_bytes_from_two_tasks")
    for rnd, sig in order_sig.items():
        # the observed interleaving of CheckTx returns across tasks, as a coverage cell (distinct schedules seen)
        h = runner.sha(repr(sig))[:12]
        v.cell("conc", "round", h)
        v.saw("conc_distinct_outcome_orders")
