"""C08 Merkle tree: RFC 6962 roots, complete and sound proofs, total verification.

Harness: /verif/harness/ext/vh-merkle (public API of astria-merkle, own RFC 6962 reference, panic monitor).
Oracle here: every `fail` event (root != MTH, honest proof rejected, mutant accepted ...) and every `panic` event
is a refuting observation; coverage counters come from the `size_done` / `adv` events.
Additionally the same binary is interpreted by Miri on a small slice (UB / overflow detector).
"""
import os
import re
import subprocess

import runner

LEVEL = "exploration"

_LOC = re.compile(r"([^ ]*crates/[^ :]+:\d+)")


def _loc(s):
    m = _LOC.search(s or "")
    if not m:
        return "unknown"
    return m.group(1).split("crates/", 1)[1]


def _miri(workdir, seed, mode, extra, tag, timeout):
    ext = os.path.join(runner.VERIF, "harness", "ext")
    env = runner._env_base()
    env["CARGO_TARGET_DIR"] = os.path.join(runner.TARGET, "ext")
    env["MIRIFLAGS"] = "-Zmiri-disable-isolation"
    out = os.path.join(workdir, "events-miri-%s.jsonl" % tag)
    cmd = ["cargo", "+nightly", "miri", "run", "--offline", "-q", "-p", "vh-merkle", "--", mode, str(seed), out] + extra
    log = open(os.path.join(workdir, "miri-%s.log" % tag), "w")
    return subprocess.Popen(cmd, cwd=ext, env=env, stdout=log, stderr=subprocess.STDOUT), out, log


def run(v, workdir, replay):
    thorough = v.tier == "thorough"
    v.rule = ("case = one (tree size, leaf index) with its honest proof and all single mutations of leaf/path/root, or one "
              "adversarial (audit path, leaf index, tree size) triple; distinct non-trivial = distinct (mode, tree size>=1) "
              "plus distinct (adversarial class, outcome) cells; sizes 0..=64 x all indices are enumerated completely")
    v.assumptions = ["reference RFC 6962 MTH/PATH in vh-merkle is independent of the crate's flat layout",
                     "sha2 is correct", "Miri slice covers sizes 0..=10 and a few hundred adversarial triples only"]
    exe = _build(workdir, False)
    exes = [("debug", exe)]
    if thorough:
        exes.append(("release", _build(workdir, True)))
    # Miri runs concurrently with the native shards
    miri_jobs = []
    mx, msh = (10, 8) if thorough else (6, 6)
    for s in range(msh):
        miri_jobs.append(_miri(workdir, v.seed, "exhaustive", ["max=%d" % mx, "allpos=0", "shard=%d" % s, "shards=%d" % msh], "exh%d" % s, 0))
    for s in range(msh):
        miri_jobs.append(_miri(workdir, v.seed, "adversarial", ["count=%d" % (100 if thorough else 6), "shard=%d" % s, "shards=%d" % msh], "adv%d" % s, 0))

    jobs = []
    nsh = 16
    for prof, e in exes:
        for s in range(nsh):
            jobs.append((e, "exhaustive", ["max=64", "allpos=1", "shard=%d" % s, "shards=%d" % nsh], "%s-exh-%d" % (prof, s)))
        nsamp = 16 if thorough else 4
        for s in range(nsamp):
            jobs.append((e, "sampled", ["count=%d" % (400 if thorough else 40), "indices=%d" % (24 if thorough else 10),
                                        "maxpow=%d" % (16 if thorough else 13), "shard=%d" % s, "shards=%d" % nsamp],
                         "%s-samp-%d" % (prof, s)))
        nadv = 16 if thorough else 4
        for s in range(nadv):
            jobs.append((e, "adversarial", ["count=%d" % (60000 if thorough else 3000), "shard=%d" % s, "shards=%d" % nadv],
                         "%s-adv-%d" % (prof, s)))

    def argv(i):
        e, mode, extra, tag = jobs[i]
        return [e, mode, str(v.seed), os.path.join(workdir, "events-%s.jsonl" % tag)] + extra, {}

    res = runner.run_shards(argv, len(jobs), workdir, timeout=1500 if thorough else 400, tag="native")
    for r in res:
        if r["rc"] != 0:
            raise runner.Inconclusive("harness shard %s exited with %s (see %s)" % (jobs[r["shard"]][3], r["rc"], r["stdout"]))

    miri_ok = 0
    for p, out, log in miri_jobs:
        try:
            rc = p.wait(timeout=1500 if thorough else 600)
        except subprocess.TimeoutExpired:
            p.kill()
            raise runner.Inconclusive("miri run timed out")
        log.close()
        text = open(log.name).read()
        if "Undefined Behavior" in text:
            v.violate("C08/miri/undefined-behaviour", "Miri reported undefined behaviour in astria-merkle",
                      {"log_tail": text[-3000:]})
        elif rc != 0:
            raise runner.Inconclusive("miri run failed rc=%s (see %s)" % (rc, log.name))
        else:
            miri_ok += 1
    v.extra["miri_runs_clean"] = miri_ok

    ends = 0
    starts = 0
    adv_outcomes = {}
    counters = {}
    for ev in runner.read_events(workdir):
        k = ev.get("kind")
        if k == "start":
            starts += 1
        elif k == "end":
            ends += 1
        elif k == "size_done":
            n = ev["leaves"]
            for c in ("proofs_ok", "mut_leaf", "mut_path", "mut_root", "mut_other_leaf", "mut_drop_elem", "mut_swap_elem", "domain_sep", "path_eq_rfc"):
                counters[c] = counters.get(c, 0) + ev.get(c, 0)
                v.evaluations += ev.get(c, 0) if c != "path_eq_rfc" else 0
            if n >= 1:
                v.cell(ev["mode"], n)
            v.saw("sizes:" + ev["mode"])
            if ev["leaves"] in (3, 17, 64) and ev["_file"].startswith("events-debug"):
                v.sample({"mode": ev["mode"], "leaves": n, "indices_checked": ev["indices"], "honest_proofs_verified": ev["proofs_ok"],
                          "leaf_mutants": ev["mut_leaf"], "path_mutants": ev["mut_path"], "root_mutants": ev["mut_root"],
                          "root_prefix": ev["root"], "root_equals_rfc6962": ev["root_ok"]})
        elif k == "adv":
            v.evaluations += 1
            oc = ev["outcome"]
            v.cell("adv", ev["class"], oc)
            adv_outcomes[ev["class"] + ":" + oc] = adv_outcomes.get(ev["class"] + ":" + oc, 0) + 1
            v.saw("adversarial_triples")
            if oc.startswith("decoded"):
                v.saw("adversarial_decoded")
        elif k == "fail":
            v.violate("C08/" + ev["class"].split(":")[0] + ("/" + ev["class"].split(":", 1)[1] if ":" in ev["class"] else ""),
                      "merkle oracle failed: %s (leaves=%s index=%s)" % (ev["class"], ev.get("leaves"), ev.get("index")),
                      {k2: ev[k2] for k2 in ev if not k2.startswith("_")})
        elif k == "panic":
            v.violate("C08/panic/%s/%s" % (ev.get("entry"), _loc(ev.get("loc"))),
                      "panic in %s at %s on a decodable proof (class %s)" % (ev.get("entry"), _loc(ev.get("loc")), ev.get("class")),
                      {k2: ev[k2] for k2 in ev if not k2.startswith("_")})
    if starts != ends:
        raise runner.Inconclusive("a harness run did not reach its end event (%d starts, %d ends)" % (starts, ends))
    for c, n in counters.items():
        v.saw(c, n)
    v.need("sizes:exhaustive", 65 * len(exes))
    v.need("sizes:sampled", 20)
    v.need("proofs_ok", 2000)
    for c in ("mut_leaf", "mut_path", "mut_root", "mut_drop_elem", "mut_swap_elem", "mut_other_leaf"):
        v.need(c, 1000)
    v.need("domain_sep", 50)
    v.need("adversarial_triples", 3000)
    v.need("adversarial_decoded", 1000)
    v.exhaustive = False
    v.extra["exhaustive_subspace"] = "tree sizes 0..=64 x every leaf index x every byte position of leaf/path/root (one random bit each)"
    v.extra["adversarial_outcomes"] = dict(sorted(adv_outcomes.items()))
    v.sample({"adversarial_classes": sorted({k.split(":")[0] for k in adv_outcomes})})


def _build(workdir, release):
    # the ext workspace has its own target dir below the shared one
    saved = runner.TARGET
    runner.TARGET = os.path.join(saved, "ext")
    try:
        return runner.build_ext("vh-merkle", workdir, release=release)
    finally:
        runner.TARGET = saved
