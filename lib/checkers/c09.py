"""C09 Conductor accepts firm data only if >2/3 voting power committed the block.

Harness: /verif/harness/conductor/celestia.rs (in-crate). Oracle here, with exact integers:
  quorum_case:   accepted  =>  3 * (power of DISTINCT validators with flag=commit and a valid signature) > 2 * total
  reconstructed: the (hash, chain id) must equal the commit served for that height, that commit must satisfy the
                 predicate above, and the attached transactions must be exactly the honest data of that block for
                 the target rollup (anything else has no valid Merkle path to the metadata's root).
  panics anywhere in decode/reconstruct are violations (junk must be ignored without stopping the conductor).
"""
import runner

LEVEL = "exploration"


def valid_distinct_power(powers, entries):
    seen = set()
    for idx, flag, sig in entries:
        if flag == "commit" and sig == "valid" and 0 <= idx < len(powers):
            seen.add(idx)
    return sum(powers[i] for i in seen)


def has_quorum(powers, entries):
    total = sum(powers)
    return 3 * valid_distinct_power(powers, entries) > 2 * total


def margin_class(powers, entries):
    total = sum(powers)
    d = 3 * valid_distinct_power(powers, entries) - 2 * total
    if d == 0:
        return "eq"
    if 0 < d <= 3:
        return "just_above"
    if -3 <= d < 0:
        return "just_below"
    return "above" if d > 0 else "below"


def run(v, workdir, replay):
    thorough = v.tier == "thorough"
    v.rule = ("case = one commit (power vector x signer subset x signature defect) judged by ensure_commit_has_quorum, or one "
              "Celestia height worth of blobs through decode->verify->reconstruct; distinct non-trivial = distinct "
              "(total mod 3, margin class, defect class, accepted) cells for commits (>=1 signer) plus distinct "
              "(metadata class, rollup class, outcome) cells for the pipeline; power alphabet {1,2,3,5,10,33,34,67,100,2^62} is "
              "enumerated completely for <=3 (quick) / <=4 (thorough) validators x all signer subsets")
    v.assumptions = ["signature validity is known by construction (the harness signs and knows what it corrupted)",
                     "CometBFT RPC is a loopback mock serving the crafted commit/validator set",
                     "ed25519 verification itself is trusted"]
    exe = runner.build_crate_tests("astria-conductor", workdir)
    runner.run_entry(exe, "celestia::verif::quorum_sweep", workdir, v, nshards=16, timeout=2400)
    runner.run_entry(exe, "celestia::verif::pipeline", workdir, v, nshards=8, timeout=1200,
                     env={"VERIF_CASES": "600" if thorough else "120"})
    events = list(runner.read_events(workdir))
    runner.check_started_ended(events)

    served = {}      # (file, case, height) -> event
    posted_meta = {}
    posted_rollup = {}
    recon_by_case = {}
    for ev in events:
        k = ev.get("kind")
        key = (ev["_file"], ev.get("case"))
        if k == "quorum_case":
            v.evaluations += 1
            powers, entries = ev["powers"], ev["entries"]
            q = has_quorum(powers, entries)
            nsig = sum(1 for e in entries if e[1] == "commit")
            mc = margin_class(powers, entries)
            if nsig:
                v.cell("q", sum(powers) % 3, mc, ev["class"], ev["accepted"])
            v.saw("quorum_cases")
            v.saw("margin:" + mc + ":mod%d" % (sum(powers) % 3))
            if ev.get("panic"):
                v.violate("C09/panic/ensure_commit_has_quorum", "ensure_commit_has_quorum panicked: " + ev["err"], ev)
                continue
            if ev["accepted"] and ev.get("commit_height_delta"):
                v.violate("C09/quorum/accepted-commit-of-other-height", "commit for another height accepted", ev)
            if ev["accepted"] and not q:
                dv, tot = valid_distinct_power(powers, entries), sum(powers)
                valid = [e for e in entries if e[1] == "commit" and e[2] == "valid" and e[0] >= 0]
                dup = len(valid) != len({e[0] for e in valid})
                raw = sum(powers[e[0]] for e in valid)
                # signature = which miscount explains the acceptance (so that a different miscount is a different finding)
                if tot >= 3 and dv > (tot // 3) * 2:
                    sig = "C09/quorum/threshold-not-strictly-above-two-thirds"
                    what = "commit accepted with valid distinct power %d of total %d (3c <= 2t)" % (dv, tot)
                elif dup and 3 * raw > 2 * tot:
                    sig = "C09/quorum/duplicate-signer-double-counted"
                    what = "a validator listed twice is counted twice: commit accepted with distinct valid power %d of %d" % (dv, tot)
                else:
                    sig = "C09/quorum/invalid-or-foreign-signature-counted"
                    what = "commit accepted although valid distinct power is only %d of %d" % (dv, tot)
                v.violate(sig, what, {"powers": powers, "entries": entries, "class": ev["class"]})
            if q and ev["class"] == "all_valid":
                v.saw("honest_quorum_commits")
                if ev["accepted"]:
                    v.saw("honest_quorum_commits_accepted")
            if v.evaluations % 20011 == 0:
                v.sample({"quorum_case": {kk: ev[kk] for kk in ("class", "powers", "entries", "accepted", "err")}})
        elif k == "served":
            served[key + (ev["height"],)] = ev
        elif k == "posted_metadata":
            posted_meta.setdefault(key, []).append(ev)
            v.saw("meta:" + ev["class"])
        elif k == "posted_rollup":
            posted_rollup.setdefault(key, []).append(ev)
            v.saw("rollup:" + ev["class"])
        elif k == "panic":
            v.violate("C09/panic/" + ev["stage"], "conductor %s panicked on posted blobs: %s" % (ev["stage"], ev["loc"]), ev)
        elif k == "case_done":
            v.evaluations += 1
            v.saw("pipeline_cases")
            # completeness ("anything else found in the namespaces is ignored"): an acceptable block whose genuine rollup blob was
            # posted must come out with exactly that data, whatever unverifiable blobs naming the same block were posted before it
            for m in posted_meta.get(key, []):
                if m["class"] != "honest":
                    continue
                s_ = served.get(key + (m["claimed_height"],))
                if s_ is None or s_["hash"] != m["hash"] or s_["chain_id"] != m["claimed_chain_id"] or not has_quorum(s_["powers"], s_["entries"]):
                    continue
                # conductor may refuse a whole commit that carries any defective signature entry (stricter than the property needs, and
                # allowed by it); completeness is only demanded for commits without defects
                if any(not ((e[1] == "commit" and e[2] == "valid") or (e[1] in ("absent", "nil") and e[2] in ("empty", "none", "valid"))) for e in s_["entries"]):
                    continue
                rolls = posted_rollup.get(key, [])
                genuine = [r for r in rolls if r["hash"] == m["hash"] and r["class"] == "honest" and r.get("is_target_rollup", True)]
                if not genuine:
                    continue
                first_genuine = min(r["item"] for r in genuine)
                hostile_before = [r["class"] for r in rolls if r["hash"] == m["hash"] and r["class"] != "honest" and r["item"] < first_genuine]
                got = [r for r in recon_by_case.get(key, []) if r["hash"] == m["hash"]]
                v.saw("acceptable_blocks_with_genuine_rollup_blob")
                if hostile_before:
                    v.saw("acceptable_blocks_with_unverifiable_blob_posted_before_the_genuine_one")
                if not got or got[0]["txs"] != genuine[0]["txs"]:
                    v.violate("C09/pipeline/genuine-rollup-data-suppressed" + ("/unverifiable-blob-posted-first" if hostile_before else ""),
                              "an acceptable block whose genuine rollup blob was posted came out %s" % ("without that data" if got else "not at all"),
                              {"metadata": m, "genuine": genuine[0], "posted_before": hostile_before, "reconstructed": got})
            if ev["junk"]:
                v.saw("cases_with_junk_blobs")
        elif k == "reconstructed":
            v.saw("reconstructed_blocks")
            recon_by_case.setdefault(key, []).append(ev)
            s = served.get(key + (ev["height"],))
            metas = [m for m in posted_meta.get(key, []) if m["hash"] == ev["hash"] and m["claimed_height"] == ev["height"]
                     and m["claimed_chain_id"] == ev["chain_id"]]
            mclass = sorted({m["class"] for m in metas}) or ["?"]
            rolls = [r for r in posted_rollup.get(key, []) if r["hash"] == ev["hash"] and r["txs"] == ev["txs"]]
            rclass = sorted({r["class"] for r in rolls}) or (["none"] if not ev["txs"] else ["?"])
            v.cell("p", "+".join(mclass), "+".join(rclass))
            witness = {"reconstructed": ev, "served_commit": s, "metadata_classes": mclass, "rollup_classes": rclass}
            if s is None:
                v.violate("C09/pipeline/accepted-without-commit", "block reconstructed for a height the sequencer served no commit for", witness)
                continue
            bad = False
            if s["hash"] != ev["hash"]:
                bad = True
                v.violate("C09/pipeline/metadata-hash-differs-from-commit",
                          "metadata (%s) accepted although its block hash differs from the commit's for height %d" % ("+".join(mclass), ev["height"]), witness)
            if s["chain_id"] != ev["chain_id"]:
                bad = True
                v.violate("C09/pipeline/metadata-chain-id-differs-from-commit",
                          "metadata (%s) accepted although its chain id differs from the commit's" % "+".join(mclass), witness)
            if not has_quorum(s["powers"], s["entries"]):
                bad = True
                v.violate("C09/pipeline/accepted-without-quorum",
                          "metadata accepted although the served commit has valid distinct power %d of %d" % (
                              valid_distinct_power(s["powers"], s["entries"]), sum(s["powers"])), witness)
            if not bad:
                if ev["txs"] != s["honest_target_txs"]:
                    v.violate("C09/pipeline/rollup-data-not-bound-to-root",
                              "accepted block carries rollup data (%s) that is not the block's data for the rollup" % "+".join(rclass), witness)
                else:
                    v.saw("honest_blocks_reconstructed")
                    if len(v.samples) < 4:
                        v.sample({"pipeline": {"height": ev["height"], "hash": ev["hash"][:16], "txs": ev["txs"],
                                               "powers": s["powers"], "entries": s["entries"]}})
    v.need("quorum_cases", 40000)
    # 3c == 2t is only possible when the total is divisible by 3
    v.need("margin:eq:mod0", 5)
    for m in ("just_above", "just_below"):
        for r in range(3):
            v.need("margin:%s:mod%d" % (m, r), 5)
    v.need("honest_quorum_commits_accepted", 1000)
    v.need("pipeline_cases", 100)
    v.need("reconstructed_blocks", 100)
    v.need("honest_blocks_reconstructed", 50)
    v.need("cases_with_junk_blobs", 20)
    v.need("acceptable_blocks_with_genuine_rollup_blob", 40)
    v.need("acceptable_blocks_with_unverifiable_blob_posted_before_the_genuine_one", 10)
    for c in ("honest", "wrong_hash", "wrong_chain_id", "forged_block_same_height", "wrong_height", "unknown_height"):
        v.need("meta:" + c, 10)
    for c in ("honest", "tampered_tx", "appended_tx", "bad_proof", "wrong_block_hash", "relabelled_other_rollup", "data_of_other_block"):
        v.need("rollup:" + c, 5)
    v.extra["liveness_observation"] = {"honest_quorum_commits": v.must_see.get("honest_quorum_commits", [0])[0],
                                       "accepted": v.must_see.get("honest_quorum_commits_accepted", [0])[0]}
