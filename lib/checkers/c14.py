"""C14 Validator set given to CometBFT mirrors the application's and is never empty.

Oracle: fold every FinalizeBlock.validator_updates batch over the genesis set with CometBFT's rules (power 0 removes,
removing an unknown validator is an error, an empty result is an error, a key twice in one batch is an error); after
every block the folded set must equal what the application stores (post-Aspen per-validator entries, pre-Aspen whole
set) and the stored count must equal its size."""
import chainlog
import runner

LEVEL = "exploration"


def run(v, workdir, replay):
    v.rule = ("case = one finalized block's validator_updates batch folded CometBFT-style and compared with the stored set; distinct "
              "non-trivial = distinct (era pre/upgrade/post Aspen, multiset of update kinds add/update/remove/readd in the block, batch size) cells "
              "among blocks with a non-empty batch")
    v.assumptions = ["blocks with misbehaviour evidence are excluded by the property: from the first such block of a history on only 'stored count == size of the stored set' is judged", "CometBFT's update rules are the four stated above"]
    hists = chainlog.run_chain(v, workdir, "validators", quick=(16, 3, 14), thorough=(16, 40, 30))
    check(v, hists)
    v.need("blocks", 200)
    v.need("nonempty_batches", 30)
    for k in ("add", "update", "remove"):
        v.need("kind:" + k, 4)
    v.need("era:pre_aspen_batches", 2)
    v.need("era:post_aspen_batches", 20)
    v.need("multi_update_blocks", 4)
    v.need("remove_attempts_on_small_sets", 5)
    v.need("evidence_blocks", 5)
    v.need("evidence_blocks_naming_two_validators", 1)
    v.need("blocks_at_or_after_evidence", 20)


def check(v, hists):
    for h in hists:
        uni = h.genesis["universe"]
        cur = {x["vk"]: x["power"] for x in uni["validators"]}
        aspen = h.genesis["aspen"]
        evidence_from = min([e["height"] for e in h.events if e["kind"] == "evidence_block"] or [10 ** 9])
        for e in h.events:
            if e["kind"] == "evidence_block":
                v.saw("evidence_blocks")
                if len(e["named"]) >= 2:
                    v.saw("evidence_blocks_naming_two_validators")
            if e["kind"] == "tx_built":
                for a in e["actions"]:
                    if a["kind"] == "validator_update" and a["power"] == 0 and len(cur) <= 2:
                        v.saw("remove_attempts_on_small_sets")
            if e["kind"] != "lab_end":
                continue
            v.evaluations += 1
            v.saw("blocks")
            height = e["height"]
            era = "pre_aspen" if height < aspen else ("aspen_block" if height == aspen else "post_aspen")
            batch = e["validator_updates"]
            if height >= evidence_from:
                # the block carried, or follows, misbehaviour evidence: the application drops the named validators from its own set
                # without telling CometBFT, so the fold has no expectation any more (the property excludes these blocks); what still
                # must hold is that the stored count is the size of the stored set
                v.saw("blocks_at_or_after_evidence")
                st = e["stored_validators"]
                post = {x["vk"]: x["power"] for x in st["post_aspen_entries"] if "vk" in x}
                if height >= aspen and st["count"] is not None and st["count"] != len(post):
                    v.violate("C14/stored-count-differs-from-set-size/after-evidence", "stored validator count %s but %d entries" % (st["count"], len(post)),
                              {"hist": list(h.key), "height": height, "stored": st, "evidence_from": evidence_from})
                continue
            wit = {"hist": list(h.key), "height": height, "era": era, "batch": batch, "cometbft_set_before": dict(cur), "stored": e["stored_validators"]}
            kinds = []
            seen = set()
            bad = False
            for u in batch:
                vk, power = u["pub_key"], u["power"]
                if vk in seen:
                    v.violate("C14/duplicate-key-in-batch/" + era, "validator %s appears twice in one update batch" % vk[:12], wit)
                    bad = True
                seen.add(vk)
                if power == 0:
                    if vk not in cur:
                        v.violate("C14/removal-of-unknown-validator/" + era, "update batch removes validator %s which CometBFT does not have" % vk[:12], wit)
                        bad = True
                    else:
                        del cur[vk]
                        kinds.append("remove")
                else:
                    kinds.append("update" if vk in cur else "add")
                    cur[vk] = power
            if batch and not cur:
                nrem = sum(1 for u in batch if u["power"] == 0)
                v.violate("C14/validator-set-emptied/%s/%d-removals-in-one-block" % (era, nrem) if era == "pre_aspen" else "C14/validator-set-emptied/" + era,
                          "applying the update batch (%d removals) empties CometBFT's validator set" % nrem, wit)
                v.saw("nonempty_batches")
                break   # CometBFT would have halted: nothing after this point is meaningful
            for k in kinds:
                v.saw("kind:" + k)
            if batch:
                v.saw("nonempty_batches")
                v.saw("era:%s_batches" % era)
                if len(batch) > 1:
                    v.saw("multi_update_blocks")
                v.cell(era, tuple(sorted(kinds)), min(len(batch), 4))
            st = e["stored_validators"]
            post = {x["vk"]: x["power"] for x in st["post_aspen_entries"] if "vk" in x}
            pre = {x["vk"]: x["power"] for x in st["pre_aspen_set"]} if st["pre_aspen_set"] is not None else None
            stored = pre if height < aspen else post
            if stored is None:
                stored = post
            if not bad and stored != cur:
                v.violate("C14/stored-set-differs-from-cometbft-set/" + era,
                          "the application stores %d validators, folding its updates gives %d" % (len(stored), len(cur)), dict(wit, folded=dict(cur)))
                cur = dict(stored) if stored else cur
            if height >= aspen and st["count"] is not None and st["count"] != len(post):
                v.violate("C14/stored-count-differs-from-set-size", "stored validator count %s but %d entries" % (st["count"], len(post)), wit)
            if len(v.samples) < 4 and len(batch) >= 2:
                v.sample({"height": height, "era": era, "batch": batch, "set_after": dict(cur)})
