"""C05 Block execution is deterministic and independent of a node's ABCI call path.

ChainSim profile `paths`: three nodes + lab walk every decided block along different legal call paths (proposer,
validator after abandoned honest/corrupt rounds, syncer, restarted). Oracle: for every height all nodes must return
the same FinalizeBlock response digest and app hash, end with the same full-state digest (also equal to the lab's
step-by-step replay), return one result per tx, and no node may fail/panic on a legal call while another succeeds."""
import collections

import chainlog
import runner

LEVEL = "exploration"


def run(v, workdir, replay):
    v.rule = ("case = one decided block executed by 3 nodes + lab along independently drawn call paths; distinct non-trivial = "
              "distinct (set of call paths of the nodes, number of rounds, classes of abandoned proposals seen, block has txs) cells "
              "among blocks with >=1 user transaction or an upgrade")
    v.assumptions = ["the harness plays CometBFT and only issues call sequences the ABCI spec allows (incl. a decided block that equals a node's own earlier proposal in "
                     "everything but one header field - time, proposer, next-validators hash or evidence list - as an equivocating proposer or a second instance of "
                     "the same validator would produce; a history ends after a block that carried misbehaviour evidence)",
                     "post-Aspen blocks carry signed oracle vote extensions of the validator set in force (updates applied with CometBFT's two-height lag, "
                     "more than 2/3 of the power committing); when a validator the application has already dropped would be needed for 2/3 the harness falls back to an empty extended commit"]
    hists = chainlog.run_chain(v, workdir, "paths")
    check(v, hists)
    v.need("blocks", 200 if v.tier == "quick" else 5000)
    v.need("blocks_with_txs", 60)
    v.need("path:process+finalize", 50)
    v.need("path:finalize_only", 50)
    v.need("path:restart_then_finalize", 4)
    v.need("abandoned_honest_round_seen", 8)
    v.need("abandoned_corrupt_round_seen", 8)
    v.need("upgrade_blocks", 6)
    v.need("restarts", 4)
    v.need("blocks_with_signed_vote_extensions", 40)
    v.need("blocks_changing_currency_pairs", 5)
    v.need("decided_block_is_twin_of_a_nodes_own_proposal", 10)
    v.need("executed_txs_checked_before_an_upgrade_and_executed_in_the_upgrade_block", 100)
    v.need("straddles_upgrade:bridge_sudo_change", 3)
    for f in ("time", "next_validators_hash", "proposer_address", "misbehavior"):
        v.need("twin_differs_in:" + f, 1)


def check(v, hists):
    for h in hists:
        by_height = collections.defaultdict(list)
        intents = {e["id"]: e.get("intent", "") for e in h.events if e.get("kind") == "tx_built"}
        built_by_id = {e["id"]: e for e in h.events if e.get("kind") == "tx_built"}
        for e in h.events:
            if "height" in e:
                by_height[e["height"]].append(e)
        if h.genesis and len(set(h.genesis["init_hashes"])) != 1:
            v.violate("C05/init-chain-divergence", "nodes computed different app hashes at InitChain", {"hist": h.key, "hashes": h.genesis["init_hashes"]})
        for height in sorted(by_height):
            evs = by_height[height]
            fin = [e for e in evs if e["kind"] == "abci" and e["call"] == "finalize"]
            if not fin:
                continue
            v.evaluations += 1
            v.saw("blocks")
            paths = []
            for e in fin:
                p = e.get("path", 0)
                pn = "process+finalize" if p <= 5 else ("finalize_only" if p <= 8 else "restart_then_finalize")
                paths.append(pn)
                v.saw("path:" + pn)
            abandoned = sorted({e["class"].split(":")[0] for e in evs if e["kind"] == "abci" and e["call"] == "process" and e["class"].startswith("abandoned")})
            for a in abandoned:
                v.saw(a + "_round_seen")
            v.saw("restarts", sum(1 for e in evs if e["kind"] == "restart"))
            prep = [e for e in evs if e["kind"] == "abci" and e["call"] == "prepare"]
            ntx = max([e.get("n_txs", 0) for e in fin] + [0])
            if any(e["kind"] == "eci" and e.get("committed_power", 0) > 0 for e in evs):
                v.saw("blocks_with_signed_vote_extensions")
            if any(e["kind"] == "tx_built" and e.get("intent", "").startswith("currency_pairs:") for e in evs):
                v.saw("blocks_changing_currency_pairs")
            for e in evs:
                if e["kind"] == "lab_tx" and e["result"] == "ok" and intents.get(e["id"], "").startswith("straddles_upgrade:"):
                    v.saw("executed_txs_checked_before_an_upgrade_and_executed_in_the_upgrade_block")
                    v.saw("straddles_upgrade:" + intents[e["id"]].split(":")[1])
                if e["kind"] == "twin_of_own_proposal":
                    v.saw("decided_block_is_twin_of_a_nodes_own_proposal")
                    v.saw("twin_differs_in:" + e["differs_in"])
            lab_begin = [e for e in evs if e["kind"] == "lab_begin"]
            upgrade = any(e.get("upgrade_hashes", 0) for e in lab_begin)
            if upgrade:
                v.saw("upgrade_blocks")
            has_user_txs = any(e["kind"] == "lab_tx" for e in evs)
            if has_user_txs:
                v.saw("blocks_with_txs")
            if has_user_txs or upgrade:
                v.cell(",".join(sorted(paths)), len(prep), "+".join(abandoned), has_user_txs, upgrade)
            wit = {"hist": list(h.key), "height": height, "events": [{k: e[k] for k in e if k not in ("response", "_file")} for e in evs if e["kind"] in ("abci", "restart", "post_commit", "lab_end", "lab_error")]}
            # errors / panics on legal calls
            for e in evs:
                if e["kind"] != "abci":
                    continue
                r = e["result"]
                bad = (e["call"] in ("prepare", "finalize") and r != "ok") or (e["call"] == "process" and e.get("class") == "decided" and r != "ok") \
                    or r.startswith("panic")
                if bad:
                    ctx = ""
                    if e["call"] == "finalize" and "apply prices from vote extensions" in r:
                        # which situation: prices applied on top of an already executed (cached) block, and does the block
                        # itself remove a currency pair?
                        decided_ids = set()
                        for pe in prep:
                            if pe.get("decided"):
                                decided_ids.update(pe.get("tx_ids") or [])
                        removes = any(intents.get(i, "").startswith("currency_pairs:remove") for i in decided_ids)
                        ctx = "/%s/%s" % ("after-cached-execution" if e.get("path", 0) <= 5 else "without-cached-execution",
                                          "block-removes-a-priced-currency-pair" if removes else "no-pair-removal-in-block")
                    decided_ids = []
                    for pe in prep:
                        if pe.get("decided"):
                            decided_ids = pe.get("tx_ids") or []
                    cctx = chainlog.construct_context(r, decided_ids, built_by_id)
                    if cctx:
                        v.violate("C05/path-failure/%s/construct%s" % ("process-or-finalize-on-non-proposers", cctx),
                                  "%s failed on node %s at height %d: the proposer included (from its mempool) a transaction that cannot be rebuilt against the block-start state: %s" % (e["call"], e["node"], height, r[:200]), wit)
                        continue
                    v.saw("finalize_failures_seen")
                    v.violate("C05/path-failure/%s/%s%s" % (e["call"], chainlog.err_class(r), ctx),
                              "%s failed on node %s at height %d along a legal call path: %s" % (e["call"], e["node"], height, r[:160]), wit)
            oks = [e for e in fin if e["result"] == "ok"]
            if len({e["app_hash"] for e in oks}) > 1:
                v.violate("C05/app-hash-divergence", "nodes computed different app hashes for the same decided block", wit)
            elif len({e["response_digest"] for e in oks}) > 1:
                v.violate("C05/finalize-response-divergence", "nodes returned different FinalizeBlock responses for the same decided block", wit)
            for e in oks:
                if e["n_tx_results"] != e["n_txs"]:
                    v.violate("C05/tx-result-count", "FinalizeBlock returned %d results for %d txs" % (e["n_tx_results"], e["n_txs"]), wit)
            pcs = [e for e in evs if e["kind"] == "post_commit"]
            lab = [e for e in evs if e["kind"] == "lab_end"]
            digests = {e["state_digest"] for e in pcs}
            if len(digests) > 1:
                v.violate("C05/committed-state-divergence", "nodes committed different states for the same decided block", wit)
            if lab and oks:
                if lab[0]["app_hash"] != oks[0]["app_hash"] and len({e["app_hash"] for e in oks}) == 1:
                    # the lab is a replica of the non-cached finalize path written against this tree
                    v.violate("C05/lab-replay-divergence", "step-by-step replay of finalize_block (non-cached path) gives another app hash than the nodes", wit)
            for e in evs:
                if e["kind"] == "lab_error":
                    decided_ids = []
                    for pe in prep:
                        if pe.get("decided"):
                            decided_ids = pe.get("tx_ids") or []
                    if chainlog.construct_context(e["err"], decided_ids, built_by_id):
                        continue    # same situation as reported above for the nodes (the lab rebuilds the block like a syncing node)
                    v.violate("C05/lab-replay-error/%s/%s" % (e["stage"], chainlog.err_class(e["err"])),
                              "step-by-step replay of the decided block failed at %s: %s" % (e["stage"], e["err"][:160]), wit)
            if len(v.samples) < 3 and has_user_txs and len(prep) > 1:
                v.sample({"hist": h.key[1], "height": height, "rounds": len(prep), "paths": paths, "abandoned": abandoned,
                          "app_hash": oks[0]["app_hash"][:16] if oks else None, "n_txs": ntx})
        if h.completed is None:
            raise runner.Inconclusive("history %s has no hist_end event" % (h.key,))
