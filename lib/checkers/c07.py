"""C07 Rollup data is complete, ordered and provable from block to rollup.

ChainSim profile `rollups`: after every commit the real gRPC handlers (GetSequencerBlock, GetFilteredSequencerBlock for
every subset of rollup ids incl. an absent one) are called and their answers decoded through the public checked types the
receivers use; the block is split for Celestia and audited conductor-style; a tamper catalogue is applied. Oracle:
 * for every rollup id the served sequence of items == payloads of that rollup's RollupDataSubmission actions in block
   (execution) order followed by that rollup's deposits, in the full block, in every filtered block and in the Celestia split;
 * the rollup id list == the set of rollups with data; a filtered block returns exactly the requested rollups that have data;
 * served artefacts pass their own verification (proofs against the commitments in the header);
 * every tampered artefact (that differs from the original) is rejected at the receiver."""
import collections

import chainlog
import runner

LEVEL = "exploration"


def run(v, workdir, replay):
    v.rule = ("case = one finalized block compared across stored / served-full / served-filtered (each subset) / Celestia-split views, or one "
              "tampered artefact; distinct non-trivial = distinct (rollups in block, has deposits, has duplicate payloads, subset size) cells and "
              "distinct (artefact, tamper class, verdict) cells")
    v.assumptions = ["the relayer's own batching of the split is C12's subject; here the split of a single block is audited conductor-style"]
    hists = chainlog.run_chain(v, workdir, "rollups", quick=(16, 2, 12), thorough=(16, 25, 25))
    check(v, hists)
    q = v.tier == "quick"
    v.need("blocks", 200 if q else 5000)
    v.need("blocks_with_rollup_data", 60)
    v.need("blocks_without_rollup_data", 10)
    v.need("deposit_only_rollups", 2)
    v.need("blocks_with_deposits", 10)
    v.need("filtered_views", 500)
    v.need("filtered_requests_not_in_ascending_id_order", 20)
    v.need("filtered_requests_with_a_repeated_id", 10)
    v.need("tampered_artefacts", 500)
    v.need("duplicate_payload_blocks", 3)
    v.need("busy_blocks_over_20_submissions_interleaved_over_rollups", 8)
    v.need("busy_blocks_over_48_submissions", 2)
    for c in ("payload_byte_flipped", "payload_dropped", "payload_appended", "payloads_reordered", "payload_moved_to_other_rollup", "rollup_ids_relabelled",
              "proof_index_changed", "proof_path_changed", "header_rollup_root_changed", "rollup_dropped", "rollup_invented",
              "celestia_payload_extended", "celestia_rollup_relabelled", "celestia_other_block_hash", "filtered_payload_extended", "filtered_rollup_relabelled",
              "full_block_proof_index_changed", "full_block_proof_path_changed"):
        v.need("tamper:" + c, 3)


def norm(item):
    if "seq" in item:
        return ("seq", item["seq"], item["len"])
    if "deposit" in item:
        d = item["deposit"]
        return ("deposit", d["bridge"], d["rollup"], d["amount"], d["asset_ibc"], d["dest"], d["src_tx"], d["src_idx"])
    return ("other", str(item))


def check(v, hists):
    for h in hists:
        built = {}
        by_height = collections.defaultdict(list)
        for e in h.events:
            if e["kind"] == "tx_built":
                built[e["id"]] = e
            if "height" in e:
                by_height[e["height"]].append(e)
        # lab state walk gives the deposits cached at the end of every block
        deposits_at = {}
        state_box = {}

        def on_end(height, state, end_diff, commit_diff, ev):
            deps = collections.defaultdict(list)
            for k in sorted(state):
                if k.startswith("~deposits/"):
                    import json
                    d = json.loads(state[k])
                    deps[d["rollup"]].append(norm({"deposit": d}))
            deposits_at[height] = deps

        for _ in chainlog.walk(h, on_block_end=on_end):
            pass
        for height, evs in sorted(by_height.items()):
            full = [e for e in evs if e["kind"] == "served_full"]
            for e in evs:
                if e["kind"] in ("served_error", "served_invalid"):
                    v.violate("C07/%s/%s" % (e["kind"], e["what"].replace(" ", "-")[:40]), "%s: %s" % (e["what"], e["err"][:150]), {"hist": list(h.key), "height": height, "event": e})
            if not full:
                continue
            full = full[0]
            v.evaluations += 1
            v.saw("blocks")
            # expected per rollup: payloads in execution order, then deposits
            expected = collections.defaultdict(list)
            dup = set()
            seen_payloads = set()
            for e in evs:
                if e["kind"] == "lab_tx" and e["result"] == "ok":
                    tx = built.get(e["id"])
                    if tx is None:
                        raise runner.Inconclusive("a block transaction is not in the build log")
                    for a in tx["actions"]:
                        if a["kind"] == "rollup_data_submission":
                            expected[a["rollup"]].append(("seq", a["sha"], a["len"]))
                            if (a["sha"]) in seen_payloads:
                                dup.add(a["sha"])
                            seen_payloads.add(a["sha"])
            deps = deposits_at.get(height, {})
            for r, ds in deps.items():
                if r not in expected:
                    v.saw("deposit_only_rollups")
                expected[r].extend(ds)
            expected = {r: x for r, x in expected.items() if x}
            if deps:
                v.saw("blocks_with_deposits")
            if dup:
                v.saw("duplicate_payload_blocks")
            v.saw("blocks_with_rollup_data" if expected else "blocks_without_rollup_data")
            nsub = sum(1 for x in expected.values() for i in x if i[0] == "seq")
            if nsub > 20 and sum(1 for x in expected.values() if sum(1 for i in x if i[0] == "seq") >= 2) >= 2:
                v.saw("busy_blocks_over_20_submissions_interleaved_over_rollups")
            if nsub > 48:
                v.saw("busy_blocks_over_48_submissions")
            wit = {"hist": list(h.key), "height": height, "expected": {r: [list(i) for i in x] for r, x in expected.items()}}

            def compare(view, got, where, exp=None):
                exp = expected if exp is None else exp
                gotn = {r: [norm(i) for i in items] for r, items in got.items()}
                if gotn != exp:
                    kind = "missing-or-extra-rollup" if set(gotn) != set(exp) else ("order-or-content" if any(sorted(map(str, gotn[r])) == sorted(map(str, exp[r])) for r in exp if gotn[r] != exp[r]) else "content")
                    v.violate("C07/%s-differs-from-block/%s" % (view, kind), "%s: data differs from the block's submissions in order + deposits" % where,
                              dict(wit, view=view, got={r: [list(i) for i in x] for r, x in gotn.items()}))

            compare("served-full", full["rollups"], "GetSequencerBlock")
            if sorted(full["rollup_ids"]) != sorted(expected):
                v.violate("C07/rollup-id-list-differs", "rollup ids %s, rollups with data %s" % (sorted(full["rollup_ids"]), sorted(expected)), wit)
            for e in evs:
                if e["kind"] == "served_filtered":
                    v.saw("filtered_views")
                    if e["requested"] != sorted(e["requested"]):
                        v.saw("filtered_requests_not_in_ascending_id_order")
                    if len(set(e["requested"])) != len(e["requested"]):
                        v.saw("filtered_requests_with_a_repeated_id")
                    req = set(e["requested"])
                    exp = {r: x for r, x in expected.items() if r in req}
                    compare("served-filtered", e["rollups"], "GetFilteredSequencerBlock(%d ids)" % len(req), exp)
                    if sorted(e["all_rollup_ids"]) != sorted(expected):
                        v.violate("C07/filtered-all-rollup-ids-differ", "filtered block lists all rollup ids %s, block has %s" % (e["all_rollup_ids"], sorted(expected)), wit)
                    v.cell("filtered", min(len(expected), 5), min(len(req), 5))
                elif e["kind"] == "celestia_split":
                    compare("celestia-split", {r: x["items"] for r, x in e["rollups"].items()}, "split_for_celestia")
                    if not e["metadata_ok"] or not e["all_audit"]:
                        v.violate("C07/honest-celestia-artefact-fails-audit", "the block's own Celestia metadata / rollup entries do not verify", dict(wit, split=e))
                    if sorted(e["metadata_rollup_ids"]) != sorted(expected):
                        v.violate("C07/celestia-metadata-rollup-ids-differ", "metadata lists %s" % e["metadata_rollup_ids"], wit)
                elif e["kind"] == "tamper_verdicts":
                    for art, cls, verdict in e["verdicts"]:
                        if cls.startswith("obs_"):
                            # outside the property's list (a proof carried next to a full block, the block hash of a filtered block):
                            # either answer, recorded only
                            v.saw("observation:%s:%s" % (cls, verdict.split(":")[0]))
                            if verdict.startswith("panic"):
                                v.violate("C07/panic-on-tampered-artefact/" + cls, "verification panicked: " + verdict[:150], dict(wit, tamper=cls))
                            continue
                        v.evaluations += 1
                        v.saw("tampered_artefacts")
                        v.saw("tamper:" + cls)
                        v.cell("tamper", art, cls, verdict.split(":")[0])
                        if verdict == "accepted":
                            v.violate("C07/tampered-artefact-verifies/" + cls, "a %s artefact tampered by %s passed the receiver's verification" % (art, cls), dict(wit, tamper=cls))
                        elif verdict.startswith("panic"):
                            v.violate("C07/panic-on-tampered-artefact/" + cls, "verification panicked: " + verdict[:150], dict(wit, tamper=cls))
            v.cell("block", min(len(expected), 5), bool(deps), bool(dup))
            if len(v.samples) < 3 and len(expected) >= 2 and deps:
                v.sample({"height": height, "rollups": {r: len(x) for r, x in expected.items()}, "deposits": sum(len(x) for x in deps.values())})
