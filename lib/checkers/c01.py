"""C01 Ledger conservation; fees exact and fully routed.

Oracle (exact integers) over the lab's per-transaction diffs and the block boundaries:
 * per successful transaction: the change of EVERY balance key, escrow key and of the ephemeral block-fee map must equal
   the reference model computed from the logged actions and the fee schedule found in the state right before the
   transaction (base + multiplier x size; beyond u128::MAX the only acceptable outcome is failure);
 * every fee event names the right action/asset/amount, fees are debited from the signer only;
 * at the end of the block the fee recipient (sudo at that moment) is credited exactly the block-fee map, nothing else moves;
 * per block and asset: sum(all balances) + sum(all escrow) is unchanged (IBC mint/burn is exercised by the C18 profile)."""
import collections

import chainlog
import runner

LEVEL = "exploration"


def run(v, workdir, replay):
    v.rule = ("case = one successful transaction execution (decided or trial) compared key-by-key with the reference ledger model, or "
              "one block boundary; distinct non-trivial = distinct (action kinds of the tx, fee asset class, amount class, outcome) cells")
    v.assumptions = ["fee schedule is read from the raw state bytes before the transaction", "incoming ICS-20 packets, acknowledgements and time-outs run between blocks; their effect on balances+escrow is judged per handler against the source/sink rule (the per-channel escrow ledger itself is C18)"]
    hists = chainlog.run_chain(v, workdir, "ledger")
    check(v, hists)
    v.need("ibc_packets_checked", 100)
    v.need("ibc_mints", 5)
    v.need("ibc_refunds_from_escrow", 3)
    v.need("transactions_checked", 400 if v.tier == "quick" else 10000)
    v.need("blocks_checked", 150)
    v.need("fee_events_checked", 400)
    v.need("fee_schedule_changes", 2)
    v.need("amounts_above_2^64", 3)
    v.need("near_max_attempts", 3)
    v.need("blocks_with_fee_payout", 50)
    for k in ("transfer", "rollup_data_submission", "bridge_lock", "bridge_unlock", "init_bridge_account"):
        v.need("kind:" + k, 2)


def amount_class(n):
    if n == 0:
        return "0"
    if n >= chainlog.U128_MAX - 8:
        return "max"
    if n >= 1 << 127:
        return "2^127"
    if n >= 1 << 64:
        return "big"
    return "small"


def check(v, hists):
    for h in hists:
        box = {"assets": [(a["denom"], a["ibc"]) for a in h.genesis["universe"]["assets"]], "burned": collections.Counter()}

        def on_begin(height, state, diff):
            box["totals_prev"] = chainlog.totals({k: x for k, x in state.items() if not k.startswith("~")})

        def on_end(height, state, end_diff, commit_diff, ev):
            # state = after the last tx, before end-of-block
            v.evaluations += 1
            v.saw("blocks_checked")
            fees = {chainlog.classify_key(k)[1]: int(x) for k, x in state.items() if k.startswith("~fees/")}
            sudo = chainlog.addr_of(state["authority/sudo"]) if "authority/sudo" in state else None
            moved = chainlog.actual_effects(end_diff)
            expected = {(sudo, a): n for a, n in fees.items() if n}
            wit = {"hist": list(h.key), "height": height, "block_fees": {a: str(n) for a, n in fees.items()}, "sudo": sudo,
                   "end_of_block_balance_changes": {"%s|%s" % k: str(x) for k, x in moved.items()}}
            if any(fees.values()):
                v.saw("blocks_with_fee_payout")
            if moved != expected:
                v.violate("C01/fee-payout-mismatch", "end of block: balance changes differ from crediting the block fees to the fee recipient", wit)
            st = dict(state)
            chainlog.apply_diff(st, end_diff)
            for key in [x for x in st if x.startswith("~")]:
                del st[key]
            chainlog.apply_diff(st, commit_diff)
            tot = chainlog.totals(st)
            prev = box.get("totals_prev")
            if prev is not None:
                burned, box["burned"] = box["burned"], collections.Counter()
                for a in set(tot) | set(prev):
                    if tot[a] + burned[a] != prev[a]:
                        v.violate("C01/supply-changed-by-block", "asset %s: total of balances+escrow changed by %d beyond the IBC burns of the block" % (a[:14], tot[a] + burned[a] - prev[a]),
                                  {"hist": list(h.key), "height": height, "asset": a, "before": str(prev[a]), "after": str(tot[a])})

        for o in chainlog.walk(h, on_block_end=on_end, on_block_begin=on_begin):
            if o.tx is not None and any(int(a["amount"]) >= chainlog.U128_MAX - 8 for a in o.tx.get("actions", []) if "amount" in a):
                v.saw("near_max_attempts")
            if o.where == "packet" and o.tx is not None:
                packet_conservation(v, o, box)
            if o.result != "ok" or o.tx is None or o.where == "packet":
                # a transaction whose exact fee exceeds u128 must fail; failures are fine here
                continue
            kinds = [a["kind"] for a in o.tx["actions"]]
            if any(k in ("fee_change", "fee_asset_change") for k in kinds):
                v.saw("fee_schedule_changes")
            exp, notes = chainlog.expected_effects(o)
            act = chainlog.actual_effects(o.diff)
            wit = {"hist": list(o.hist), "height": o.height, "at": o.where, "trial": o.trial, "tx": o.tx,
                   "actual": {"%s|%s" % k: str(x) for k, x in act.items()}}
            # conservation inside the transaction, whatever the actions are
            per_asset = collections.Counter()
            for (who, asset), n in act.items():
                per_asset[asset] += n
            # ICS-20: withdrawing a foreign voucher over the channel it came in on burns it (the only legal supply change here)
            burns = collections.Counter()
            for a in o.tx["actions"]:
                if a["kind"] == "ics20_withdrawal":
                    trace = chainlog.trace_of(box["assets"], a["denom"])
                    if trace is not None and trace.startswith("transfer/%s/" % a["channel"]):
                        burns[a["denom_ibc"]] += int(a["amount"])
                        box["burned"][a["denom_ibc"]] += int(a["amount"]) if not o.trial else 0
                        v.saw("ibc_burns")
            for a in set(per_asset) | set(burns):
                n = per_asset[a] + burns[a]
                if n != 0:
                    v.violate("C01/value-created-or-destroyed-by-transaction", "asset %s: balances+escrow+block fees changed by %d within one transaction" % (a[:14], n), wit)
            if exp is None:
                v.saw("not_modelled:" + notes[:40])
                continue
            v.evaluations += 1
            v.saw("transactions_checked")
            for k in set(kinds):
                v.saw("kind:" + k)
            amounts = [int(a["amount"]) for a in o.tx["actions"] if "amount" in a]
            if any(n >= 1 << 64 for n in amounts):
                v.saw("amounts_above_2^64")
            fee_assets = sorted({a.get("fee_asset", "")[:8] for a in o.tx["actions"] if a.get("fee_asset")})
            v.cell("+".join(sorted(set(kinds))), len(fee_assets), amount_class(max(amounts) if amounts else 0))
            wit["expected"] = {"%s|%s" % k: str(x) for k, x in exp.items()}
            # fee events
            fee_events = [e for e in o.events if e["kind"] == "tx.fees"]
            exp_fees = []
            for i, a in enumerate(o.tx["actions"]):
                if a["kind"] in chainlog.FEE_BEARING:
                    asset, amount = chainlog.fee_expectation(o.pre, a)
                    exp_fees.append((chainlog.ACTION_FULL_NAME[a["kind"]], asset, amount, i))
            got = sorted((e["attrs"].get("actionName"), e["attrs"].get("asset"), int(e["attrs"].get("feeAmount", -1)), int(e["attrs"].get("positionInTransaction", -1))) for e in fee_events)
            v.saw("fee_events_checked", len(got))
            for (_, _, amount, _) in exp_fees:
                if amount > chainlog.U128_MAX:
                    v.violate("C01/fee-saturated-instead-of-failing", "exact fee base+multiplier*size exceeds u128::MAX but the transaction succeeded", wit)
            if got != sorted(exp_fees) and not any(x[2] > chainlog.U128_MAX for x in exp_fees):
                wit["fee_events"] = got
                wit["fee_expected"] = sorted(exp_fees)
                v.violate("C01/fee-event-mismatch", "fee events differ from base + multiplier x size under the schedule on chain at that moment", wit)
            elif exp != act and not any(x[2] > chainlog.U128_MAX for x in exp_fees):
                who_off = sorted({("signer" if k[0] == o.signer else ("fees" if k[0] == "~fees" else "other")) for k in set(exp) | set(act) if exp.get(k) != act.get(k)})
                v.violate("C01/ledger-effect-mismatch/" + "+".join(who_off), "balance/escrow/fee changes of a successful transaction differ from the reference ledger model", wit)
            elif len(v.samples) < 4 and len(kinds) >= 2:
                v.sample({"actions": kinds, "fees": [(n[0].split(".")[-1], str(n[2])) for n in exp_fees], "effects": len(act)})


ACK_OK = __import__("hashlib").sha256(b'{"result":"AQ=="}').hexdigest()


def packet_conservation(v, o, box):
    """ICS-20 packet handlers (receive, acknowledgement, time-out) between blocks: balances + escrow may change only by what the
    source / sink rule mints: a voucher for a foreign token coming in, or the voucher burned by a withdrawal that is refunded.
    Returning sequencer-origin tokens and refunds of escrowed tokens only move value from escrow to an account (net zero)."""
    p = o.tx["packet"]
    v.saw("ibc_packets_checked")
    if not o.tx.get("applied") or o.result != "ok":
        return
    act = chainlog.actual_effects(o.diff)
    net = collections.Counter()
    for (who, asset), n in act.items():
        if who != "~fees":
            net[asset] += n
    try:
        amount = int(p["amount"])
    except ValueError:
        amount = 0      # an unparsable amount cannot be applied: the handler must acknowledge with an error and move nothing
    allowed = collections.Counter()
    assets = box["assets"]
    if p["handler"] == "recv":
        acks = [new for k, (old, new) in o.diff.items() if k.startswith("ibc-data/acks/")]
        if len(acks) == 1 and acks[0] == ACK_OK:
            prefix = "transfer/%s/" % p["remote_channel"]
            if p["denom"].startswith(prefix):
                v.saw("ibc_unescrow_on_receive")
            else:
                trace = "transfer/%s/%s" % (p["local_channel"], p["denom"])
                asset = chainlog.ibc_id(trace)
                if (trace, asset) not in assets:
                    assets.append((trace, asset))
                allowed[asset] = amount
                v.saw("ibc_mints")
    elif p["handler"] != "ack_success":
        trace = chainlog.trace_of(assets, p["denom"])
        if trace is None:
            raise runner.Inconclusive("refund of unknown denom " + p["denom"])
        if trace.startswith("transfer/%s/" % p["local_channel"]):
            allowed[chainlog.ibc_id(trace)] = amount     # the voucher burned on the way out is minted again
            v.saw("ibc_refunds_reminting_a_burned_voucher")
        else:
            v.saw("ibc_refunds_from_escrow")
            if p.get("memo"):
                v.saw("ibc_refunds_from_escrow_to_a_rollup")
    for a in set(net) | set(allowed):
        if net[a] != allowed[a]:
            v.violate("C01/value-created-or-destroyed-by-ibc-packet/%s" % p["handler"],
                      "asset %s: balances+escrow changed by %d in an ICS-20 %s handler, the source/sink rule allows %d" % (a[:14], net[a], p["handler"], allowed[a]),
                      {"hist": list(o.hist), "height": o.height, "packet": p, "actual": {"%s|%s" % k: str(x) for k, x in act.items()}})
