"""C10 Conductor executes each height once, in order, under any soft/firm interleaving.

Harness: /verif/harness/conductor/executor.rs (real executor event loop on harness-owned channels, real tonic
ExecutionService on loopback that records every RPC). Oracle over the RPC log of every delivery word:
 * at most one ExecuteBlock per sequencer height (identified by the sequencer block hash the request carries), heights in
   strictly increasing order without gaps from the first expected height;
 * each ExecuteBlock names as parent the hash returned for the previous height (or the session's head for the first);
 * UpdateCommitmentState: soft and firm numbers never decrease, firm <= soft, and a firm commitment names exactly the
   block that was executed from that sequencer height (or a block of an earlier session);
 * nothing is executed for a delivery that is a duplicate, stale or out of order (the executor may stop with an error
   instead - that is allowed); after it stopped nothing more is executed."""
import collections

import runner

LEVEL = "exploration"


def run(v, workdir, replay):
    thorough = v.tier == "thorough"
    v.rule = ("case = one delivery word of soft/firm blocks against a fresh executor; distinct non-trivial = distinct (commit level, word shape "
              "= sequence of S/F with duplicate/stale/skip marks, outcome class) cells among words that caused >= 1 ExecuteBlock; all words of "
              "length <= 4 (quick) / 5 (thorough) over {S,F} x 3 heights are enumerated per commit level")
    v.assumptions = ["reader tasks are replaced by the harness (deliveries are what the readers would push into the channels)",
                     "quiescence between deliveries is detected by RPC inactivity (bounded wait); a watchdog firing is inconclusive"]
    exe = runner.build_crate_tests("astria-conductor", workdir)
    runner.run_entry(exe, "executor::verif::delivery_words", workdir, v, nshards=16, timeout=3000,
                     env={"VERIF_WORD_LEN": "5" if thorough else "4", "VERIF_RANDOM_WORDS": "1500" if thorough else "120"})
    events = list(runner.read_events(workdir, prefix="events-c10"))
    runner.check_started_ended(events)
    check(v, events)
    v.need("words", 1500)
    v.need("executions", 2000)
    v.need("firm_before_soft_words", 50)
    v.need("duplicate_deliveries", 100)
    v.need("stale_soft_deliveries", 20)
    v.need("soft_ahead_at_session_start", 10)
    v.need("firm_only_soft_ahead_at_start", 2)
    v.need("spread_limited_words", 5)
    for lvl in ("SoftAndFirm", "SoftOnly", "FirmOnly"):
        v.need("level:" + lvl, 50)


def check(v, events):
    watchdogs = 0
    for e in events:
        if e.get("kind") != "exec_word":
            continue
        v.evaluations += 1
        v.saw("words")
        lvl = e["level"]
        v.saw("level:" + lvl)
        if e["outcome"] == "watchdog":
            watchdogs += 1
            continue
        if e["outcome"].startswith("task_panicked"):
            v.violate("C10/executor-panicked", "executor task panicked: " + e["outcome"][:150], e)
            continue
        hash2h = {hx: h for h, hx in e["seq_hash"]}
        seq_start, rollup_start = e["seq_start"], e["rollup_start"]
        num2h = lambda n: seq_start + (n - rollup_start)
        wit = {"level": lvl, "firm0": e["firm0"], "soft0": e["soft0"], "lookahead": e["lookahead"], "deliveries": e["deliveries"], "rpcs": e["rpcs"], "outcome": e["outcome"]}
        if e["soft0"] > e["firm0"]:
            v.saw("soft_ahead_at_session_start")
            if lvl == "FirmOnly":
                v.saw("firm_only_soft_ahead_at_start")
        # delivery shape
        seen = {"S": set(), "F": set()}
        shape = []
        for kind, h, sent, at in e["deliveries"]:
            mark = ""
            if h in seen[kind]:
                mark = "dup"
                v.saw("duplicate_deliveries")
            elif seen[kind] and h < max(seen[kind]):
                mark = "stale"
                if kind == "S":
                    v.saw("stale_soft_deliveries")
            elif seen[kind] and h > max(seen[kind]) + 1:
                mark = "skip"
            seen[kind].add(h)
            shape.append(kind + mark)
        if lvl == "SoftAndFirm" and e["deliveries"] and e["deliveries"][0][0] == "F":
            v.saw("firm_before_soft_words")
        executed = {}       # height -> (returned hash, returned number)
        order = []
        head_hash = {"SoftAndFirm": "g%d" % e["soft0"], "SoftOnly": "g%d" % e["soft0"], "FirmOnly": "g%d" % e["firm0"]}[lvl]
        first_expected = e["first_expected_firm"] if lvl == "FirmOnly" else e["first_expected_soft"]
        last_soft = last_firm = None
        for r in e["rpcs"]:
            if r["rpc"] == "execute_block":
                v.saw("executions")
                h = hash2h.get(r["sequencer_block_hash"])
                if h is None:
                    v.violate("C10/executed-unknown-block", "ExecuteBlock for a sequencer block the harness never delivered", wit)
                    continue
                if h in executed:
                    v.violate("C10/height-executed-twice/" + lvl, "sequencer height %d executed twice" % h, wit)
                    continue
                expected_h = (order[-1] + 1) if order else first_expected
                if h != expected_h:
                    v.violate("C10/height-executed-out-of-order/" + lvl, "executed height %d where %d was next" % (h, expected_h), wit)
                expected_parent = executed[order[-1]][0] if order else head_hash
                if r["parent_hash"] != expected_parent:
                    v.violate("C10/executed-on-wrong-parent/" + lvl, "height %d executed on top of %s, the previous height's block is %s" % (h, r["parent_hash"], expected_parent), wit)
                executed[h] = (r["returned_hash"], r["returned_number"])
                order.append(h)
            elif r["rpc"] == "update_commitment_state":
                soft, firm = r["soft"], r["firm"]
                if last_soft is not None and soft["number"] < last_soft:
                    v.violate("C10/soft-commitment-decreased", "soft number went from %d to %d" % (last_soft, soft["number"]), wit)
                if last_firm is not None and firm["number"] < last_firm:
                    v.violate("C10/firm-commitment-decreased", "firm number went from %d to %d" % (last_firm, firm["number"]), wit)
                if lvl != "FirmOnly" and firm["number"] > soft["number"]:
                    v.violate("C10/firm-exceeds-soft", "firm %d > soft %d" % (firm["number"], soft["number"]), wit)
                last_soft, last_firm = soft["number"], firm["number"]
                for name, c in (("firm", firm), ("soft", soft)):
                    if c["hash"].startswith("g"):
                        continue    # a block of an earlier session
                    hh = num2h(c["number"])
                    if hh not in executed or executed[hh][0] != c["hash"]:
                        v.violate("C10/%s-commitment-names-block-of-other-height" % name,
                                  "%s commitment number %d names %s, but height %d produced %s" % (name, c["number"], c["hash"], hh, executed.get(hh)), wit)
        if lvl == "SoftAndFirm" and any(not sent for _, _, sent, _ in e["deliveries"]):
            v.saw("spread_limited_words")
        if order:
            v.cell(lvl, tuple(shape), e["outcome"].split(":")[0])
        if len(v.samples) < 4 and len(order) >= 3 and lvl == "SoftAndFirm":
            v.sample({"level": lvl, "deliveries": [[k, h] for k, h, _, _ in e["deliveries"]], "executed_heights": order, "outcome": e["outcome"][:60]})
    v.extra["watchdog_words"] = watchdogs
    if watchdogs > max(3, v.evaluations // 50):
        raise runner.Inconclusive("%d delivery words hit the watchdog (executor did not stop after its channels closed)" % watchdogs)
