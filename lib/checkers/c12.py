"""C12 Relayer batching preserves every block exactly and respects the payload bound.

Harness: /verif/harness/relayer/write.rs (real NextSubmission driven like BlobSubmitter::run; blobs decoded like conductor).
Oracle per scenario:
 * every block that was accepted (try_add ok) appears in exactly one submission; submissions carry heights in increasing
   order within and across submissions; the height a submission reports as its greatest equals the greatest height in
   its decoded metadata (this is what the relayer persists as its resume point);
 * for every included rollup of every block, the decoded rollup data equals the block's data and its proof audits against
   the decoded metadata; the metadata's rollup-id list is the block's full list (a filter never touches metadata);
 * a filter removes only the filtered rollups' data; compressed payload (also recomputed as the sum of blob sizes) <= 1_000_000;
 * a block is refused as oversized only alone, and pushed back as full only when something else is queued."""
import collections

import runner

LEVEL = "exploration"
MAX_PAYLOAD = 1_000_000


def run(v, workdir, replay):
    thorough = v.tier == "thorough"
    v.rule = ("case = one submission taken from NextSubmission, decoded conductor-style and compared with the blocks that went in; distinct "
              "non-trivial = distinct (blocks in submission, fill class, filter size, rollups present) cells")
    v.assumptions = ["payloads are incompressible random bytes so that compressed size tracks raw size", "Celestia submission itself is out of scope here (C11)"]
    exe = runner.build_crate_tests("astria-sequencer-relayer", workdir)
    runner.run_entry(exe, "relayer::write::verif::batching", workdir, v, nshards=16, timeout=3000,
                     env={"VERIF_SCENARIOS": "40" if thorough else "3"})
    events = list(runner.read_events(workdir))
    runner.check_started_ended(events)
    check(v, events)
    q = not thorough
    v.need("submissions", 100 if q else 4000)
    v.need("blocks_accepted", 250 if q else 10000)
    v.need("full_pushbacks", 20)
    v.need("oversized_refusals", 3)
    v.need("multi_block_submissions", 30)
    v.need("near_limit_submissions", 10)
    v.need("filtered_scenarios", 10)
    v.need("blocks_without_rollup_data", 10)
    v.need("take_futures_dropped", 10)


def check(v, events):
    scen = collections.OrderedDict()
    for e in events:
        if "sc" in e:
            scen.setdefault((e["_file"], e["sc"]), []).append(e)
    for key, evs in scen.items():
        head = [e for e in evs if e["kind"] == "scenario"][0]
        flt = set(head["filter"])
        if flt:
            v.saw("filtered_scenarios")
        blocks = {}
        accepted = []
        queued = 0         # blocks in the next submission according to the op log
        emitted = []
        last_height = 0
        for e in evs:
            wit = {"scenario": list(key), "filter": sorted(flt), "event": e}
            k = e["kind"]
            if k == "block_in":
                blocks[e["block"]["height"]] = e["block"]
                if not e["block"]["rollups"]:
                    v.saw("blocks_without_rollup_data")
            elif k == "take_dropped":
                v.saw("take_futures_dropped")
            elif k == "add":
                r = e["result"]
                if r == "ok":
                    accepted.append(e["height"])
                    queued += 1
                    v.saw("blocks_accepted")
                elif r == "full":
                    v.saw("full_pushbacks")
                    if queued == 0:
                        v.violate("C12/pushed-back-as-full-while-empty", "a block was refused as 'full' although nothing is queued", wit)
                elif r == "oversized":
                    v.saw("oversized_refusals")
                    if queued != 0:
                        v.violate("C12/refused-as-oversized-while-others-queued", "oversized refusal with %d blocks queued" % queued, wit)
                    if e.get("compressed_size", MAX_PAYLOAD + 1) <= MAX_PAYLOAD:
                        v.violate("C12/refused-as-oversized-below-limit", "block refused as oversized with compressed size %s" % e.get("compressed_size"), wit)
                else:
                    v.violate("C12/try_add-failed/" + r.split(":")[0], "try_add failed: " + r[:150], wit)
            elif k == "submission":
                v.evaluations += 1
                v.saw("submissions")
                s = e["sub"]
                wit = {"scenario": list(key), "filter": sorted(flt), "submission": {kk: s[kk] for kk in s if kk != "rollup_data"}}
                if s["problems"]:
                    v.violate("C12/blob-not-decodable-by-conductor", "; ".join(s["problems"])[:200], wit)
                heights = [m["height"] for m in s["metadata"]]
                if len(heights) > 1:
                    v.saw("multi_block_submissions")
                if heights != sorted(heights) or len(set(heights)) != len(heights) or (heights and heights[0] <= last_height):
                    v.violate("C12/heights-not-increasing", "submission carries heights %s after %d" % (heights, last_height), wit)
                if heights:
                    last_height = max(last_height, max(heights))
                    if s["greatest_sequencer_height"] != max(heights):
                        v.violate("C12/reported-greatest-height-differs-from-content",
                                  "submission reports greatest height %d but carries %s" % (s["greatest_sequencer_height"], heights), wit)
                if s["num_blocks"] != len(heights) or len(heights) != queued:
                    v.violate("C12/submission-block-count-mismatch", "submission has %d metadata entries, reports %d blocks, %d were queued" % (len(heights), s["num_blocks"], queued), wit)
                queued = 0
                emitted.extend(heights)
                size = max(s["compressed_size"], s["sum_blob_bytes"])
                if size > MAX_PAYLOAD:
                    v.violate("C12/payload-exceeds-maximum", "compressed payload of %d bytes" % size, wit)
                if s["compressed_size"] != s["sum_blob_bytes"]:
                    v.violate("C12/reported-compressed-size-differs", "reported %d, blobs sum to %d" % (s["compressed_size"], s["sum_blob_bytes"]), wit)
                if size > MAX_PAYLOAD - 60_000:
                    v.saw("near_limit_submissions")
                data = collections.defaultdict(dict)
                for r in s["rollup_data"]:
                    if r["rollup"] in data[r["hash"]]:
                        v.violate("C12/rollup-data-duplicated", "rollup %s of block %s appears twice" % (r["rollup"][:10], r["hash"][:10]), wit)
                    data[r["hash"]][r["rollup"]] = r
                    if not r["namespace_ok"]:
                        v.violate("C12/rollup-data-in-foreign-namespace", "rollup data posted under another rollup's namespace", wit)
                    if r["proof_ok"] is not True:
                        v.violate("C12/rollup-proof-does-not-audit", "rollup data proof does not audit against the submitted metadata (%s)" % r["proof_ok"], wit)
                present = set()
                for m in s["metadata"]:
                    b = blocks.get(m["height"])
                    if b is None or b["hash"] != m["hash"]:
                        v.violate("C12/unknown-block-in-submission", "metadata for height %s does not belong to a block that went in" % m["height"], wit)
                        continue
                    if sorted(m["rollup_ids"]) != sorted(b["rollups"]):
                        v.violate("C12/metadata-rollup-ids-altered", "metadata lists rollups %s, the block has %s" % (m["rollup_ids"], sorted(b["rollups"])), wit)
                    got = data.get(m["hash"], {})
                    for rid, txs in b["rollups"].items():
                        included = (not flt) or rid in flt
                        present.add(rid)
                        if included:
                            if rid not in got:
                                v.violate("C12/rollup-data-missing", "data of rollup %s of height %d is missing" % (rid[:10], m["height"]), wit)
                            elif got[rid]["txs"] != txs:
                                v.violate("C12/rollup-data-altered", "data of rollup %s of height %d differs from the block's" % (rid[:10], m["height"]), wit)
                        elif rid in got:
                            v.violate("C12/filtered-rollup-data-submitted", "data of filtered rollup %s was submitted" % rid[:10], wit)
                    for rid in got:
                        if rid not in b["rollups"]:
                            v.violate("C12/rollup-data-invented", "data for rollup %s which the block does not contain" % rid[:10], wit)
                v.cell(min(len(heights), 5), "near_limit" if size > MAX_PAYLOAD - 60_000 else ("big" if size > 300_000 else "small"), len(flt), min(len(present), 4))
                if len(v.samples) < 4 and len(heights) >= 2:
                    v.sample({"heights": heights, "compressed_size": s["compressed_size"], "num_blobs": s["num_blobs"], "filter_size": len(flt)})
            elif k == "scenario_end":
                if sorted(emitted) != sorted(accepted):
                    lost = sorted(set(accepted) - set(emitted))
                    dup = sorted({h for h in emitted if emitted.count(h) > 1})
                    v.violate("C12/accepted-block-" + ("lost" if lost else "duplicated"), "accepted %s, submitted %s" % (accepted, emitted),
                              {"scenario": list(key), "lost": lost, "duplicated": dup})
