"""C04 Bridge solvency: deposits are backed, withdrawals are paid at most once.

Oracle over the lab's per-transaction diffs: every Deposit that appears in the block's deposit cache during a
transaction must be matched, in the same transaction, by an equal credit of the named bridge account in the bridge's
asset; a failed transaction adds no Deposit (and emits none); a (bridge, withdrawal event id) pair is honoured at most
once in a history across BridgeUnlock / BridgeTransfer / Ics20Withdrawal."""
import collections
import json

import chainlog
import runner

LEVEL = "exploration"


def run(v, workdir, replay):
    v.rule = ("case = one transaction execution that touches a bridge (lock / unlock / bridge transfer / admin) or one reuse attempt "
              "of a withdrawal event id; distinct non-trivial = distinct (action kinds, outcome, deposit count, event-id status) cells")
    v.assumptions = ["ICS-20 receive/refund deposits are exercised by the C18 profile and judged there with the same rule"]
    hists = chainlog.run_chain(v, workdir, "bridge")
    check(v, hists)
    v.need("deposits_checked", 40 if v.tier == "quick" else 1500)
    v.need("deposit_from:bridge_lock", 20)
    v.need("deposit_from:bridge_transfer", 1)
    v.need("withdrawals_honoured", 10)
    v.need("failed_executions_touching_bridge", 6)
    v.need("event_id_reuse_attempts", 1)
    v.need("event_id_reuse_attempts:ics20_withdrawal", 1)
    v.need("withdrawals_honoured:ics20_withdrawal", 1)
    v.need("bridge_transfer_to_the_source_bridge_itself_executed", 2)


def check(v, hists):
    for h in hists:
        honoured = {}
        for o in chainlog.walk(h):
            if o.where == "packet":
                continue
            acts = (o.tx or {}).get("actions", [])
            kinds = [a["kind"] for a in acts]
            touches = any(k.startswith("bridge") or k == "ics20_withdrawal" for k in kinds)
            wit = {"hist": list(o.hist), "height": o.height, "at": o.where, "trial": o.trial, "tx": o.tx, "result": o.result, "diff": o.diff}
            new_deps = [json.loads(new) for k, (old, new) in o.diff.items() if k.startswith("~deposits/") and old is None and new]
            removed_deps = [k for k, (old, new) in o.diff.items() if k.startswith("~deposits/") and new is None]
            dep_events = [e for e in o.events if e["kind"] == "tx.deposit"]
            if o.result != "ok":
                if touches and not o.result.startswith("refused"):
                    v.saw("failed_executions_touching_bridge")
                    v.cell("+".join(sorted(set(kinds))), "failed", len(new_deps))
                if new_deps or dep_events:
                    v.violate("C04/deposit-from-failed-transaction", "a transaction that did not take effect left %d deposit(s) / %d deposit event(s)" % (len(new_deps), len(dep_events)), wit)
                # reuse attempts
                for a in acts:
                    ev = a.get("event_id")
                    if a["kind"] == "ics20_withdrawal" and a.get("bridge") and a.get("memo"):
                        try:
                            memo = json.loads(a["memo"])
                            ev = memo.get("rollupWithdrawalEventId") or memo.get("rollup_withdrawal_event_id")
                        except ValueError:
                            ev = None
                    if ev and (a.get("bridge"), ev) in honoured:
                        v.saw("event_id_reuse_attempts")
                        v.saw("event_id_reuse_attempts:" + a["kind"])
                continue
            if removed_deps:
                v.violate("C04/deposit-removed", "a transaction removed an already cached deposit", wit)
            if not (touches or new_deps):
                continue
            v.evaluations += 1
            if any(a["kind"] == "bridge_transfer" and a.get("to") == a.get("bridge") for a in acts):
                v.saw("bridge_transfer_to_the_source_bridge_itself_executed")
            act = chainlog.actual_effects(o.diff)
            per = collections.Counter()
            for d in new_deps:
                per[(d["bridge"], d["asset_ibc"])] += int(d["amount"])
                v.saw("deposits_checked")
                src = [a["kind"] for i, a in enumerate(acts) if i == d["src_idx"]]
                v.saw("deposit_from:" + (src[0] if src else "?"))
                basset = chainlog.bridge_asset(o.pre, d["bridge"])
                if basset is not None and basset != d["asset_ibc"]:
                    v.violate("C04/deposit-in-foreign-asset", "deposit published for bridge %s in an asset that is not the bridge's" % d["bridge"], wit)
            for (bridge, asset), amount in per.items():
                credited = act.get((bridge, asset), 0)
                # the same bridge may also pay out in the same bundle; count explicit debits back in
                debits = sum(int(a["amount"]) for a in acts if a["kind"] in ("bridge_unlock", "bridge_transfer") and a.get("bridge") == bridge)
                debits += sum(int(a["amount"]) for a in acts if a["kind"] == "ics20_withdrawal" and a.get("bridge") == bridge)
                # plain transfers to a bridge account credit it without a deposit (allowed); they are not backing
                plain_in = sum(int(a["amount"]) for a in acts if a["kind"] == "transfer" and a.get("to") == bridge and a.get("asset") == asset)
                credited -= plain_in
                if o.signer == bridge:
                    # the bridge account signs itself (it is its own withdrawer): it also pays this transaction's fees, and what it
                    # locks into other bridges, out of the same balance
                    for k, ch in o.diff.items():
                        if k == "~fees/" + asset:
                            debits += int(ch[1] or 0) - int(ch[0] or 0)
                    debits += sum(int(a["amount"]) for a in acts if a["kind"] == "bridge_lock" and a.get("asset") == asset and a.get("to") != bridge)
                if credited + debits != amount:
                    v.violate("C04/deposit-not-backed-by-equal-credit", "deposits of %d to bridge %s but the bridge account was credited %d in the same transaction" % (amount, bridge, credited + debits), wit)
            if len(dep_events) != len(new_deps):
                v.violate("C04/deposit-event-count-mismatch", "%d deposit events for %d cached deposits" % (len(dep_events), len(new_deps)), wit)
            # withdrawals honoured at most once
            in_this_tx = {}
            for a in acts:
                ev = a.get("event_id")
                if a["kind"] == "ics20_withdrawal" and a.get("bridge") and a.get("memo"):
                    try:
                        memo = json.loads(a["memo"])
                        ev = memo.get("rollupWithdrawalEventId") or memo.get("rollup_withdrawal_event_id")
                    except ValueError:
                        ev = None
                if not ev:
                    continue
                bridge = a.get("bridge")
                key = (bridge, ev)
                if key in in_this_tx:
                    v.violate("C04/withdrawal-event-honoured-twice/%s+%s" % (in_this_tx[key], a["kind"]),
                              "withdrawal event id %s of bridge %s honoured twice inside one transaction" % (ev, bridge), wit)
                in_this_tx[key] = a["kind"]
                if o.trial:
                    if key in honoured:
                        v.violate("C04/withdrawal-event-honoured-twice/%s+%s" % (honoured[key][0], a["kind"]), "withdrawal event id %s of bridge %s honoured again (trial)" % (ev, bridge), wit)
                    continue
                if key in honoured:
                    v.violate("C04/withdrawal-event-honoured-twice/%s+%s" % (honoured[key][0], a["kind"]), "withdrawal event id %s of bridge %s honoured twice" % (ev, bridge), wit)
                honoured[key] = (a["kind"], o.height)
                v.saw("withdrawals_honoured")
                v.saw("withdrawals_honoured:" + a["kind"])
            v.cell("+".join(sorted(set(kinds))), "ok", len(new_deps))
            if len(v.samples) < 4 and new_deps:
                v.sample({"actions": kinds, "deposits": new_deps[:2]})
