#!/usr/bin/env python3
"""Writes /verif/MANIFEST.json from the table below (keeps it schema-valid as checks are added)."""
import json, os, subprocess
HERE = os.path.dirname(os.path.dirname(os.path.abspath(__file__)))
ALL = ["C%02d" % i for i in range(1, 19)]

CHECKS = {
 "C08": dict(engine="vh-merkle", cat="exploration", ref="DESIGN.md §5 C08",
   technique="runtime monitoring: differential oracle (independent RFC 6962 reference) + panic monitor over exhaustive small trees, sampled large trees and adversarial proof triples; Miri interpreter on a slice",
   text="Runs the real astria-merkle API on every tree size 0..=64 x every leaf index x every byte position of leaf/path/root (one flipped bit each), sampled sizes up to 2^16 and thousands of decodable-but-inconsistent (path,index,size) triples; an independent RFC 6962 MTH/PATH reference and a panic monitor judge each execution; a slice is repeated under Miri. Held = no refutation on the executions produced.",
   note="trusts sha2 and the 15-line RFC 6962 reference in the harness; universality over all sizes/contents is sampled, exhaustive only for <=64 leaves (one bit per byte position)"),
 "C09": dict(engine="conductor-celestia", cat="exploration", ref="DESIGN.md §5 C09",
   technique="runtime monitoring: real ensure_commit_has_quorum and real decode->verify->reconstruct pipeline driven with harness-signed commits and hostile blobs; offline exact-integer oracle over the recorded event log",
   text="Enumerates every voting-power vector over a 10-value alphabet for <=3 (quick) / <=4 (thorough) validators x every signer subset x signature defects (forged, duplicated, nil, wrong chain/height/round/block, outsider) against the real quorum check, and runs the real Celestia blob pipeline against a loopback CometBFT mock with honest and hostile metadata/rollup blobs; the Python oracle recomputes 3c>2t over distinct validly signing validators and the expected accepted set, and demands completeness: an acceptable block whose genuine rollup blob was posted is reconstructed with exactly that data also when unverifiable blobs naming the same block precede it. Held = no accepted commit/metadata/rollup data outside the oracle on the executions produced.",
   note="the harness signs, so signature validity is known by construction; ed25519 and the tendermint types are trusted; CometBFT RPC is mocked on loopback; larger validator sets are sampled"),
}

def _chain(pid, title, what, note="lab replay is a replica of finalize_block's non-cached path (its app hash is compared with the nodes' on every block); the harness plays CometBFT; quantifiers are sampled by seeded generators"):
    return dict(engine="chainsim", cat="exploration", ref="DESIGN.md §5 " + pid,
       technique="runtime monitoring: real sequencer App driven over multi-block histories on 3 nodes + lab, full-state diffs around every transaction recorded to an event log; offline Python oracle with exact integers / reference model",
       text=what, note=note)

CHECKS.update({
 "C01": _chain("C01", "ledger", "Every successful transaction execution (decided or trial) is compared key-by-key (all balances, escrow, block-fee map) with a reference ledger model computed from the logged actions and the fee schedule read from the pre-state; fee events must equal base+multiplier*size exactly; end-of-block fee payout and per-block supply conservation are checked for every block. Held = no discrepancy on the executions produced."),
 "C02": _chain("C02", "authz", "Every state key changed by every successful transaction is classified and attributed to the authority recorded in the pre-state (owner / bridge withdrawer / sudo / IBC sudo / bridge sudo); attacks by non-authorities, former authorities and bridge accounts are generated and must be refused. Held = no unauthorised change observed."),
 "C03": _chain("C03", "atomic", "Failed executions (bundles failing at every action index, gapped nonces, replays, unaffordable actions after deposit-emitting ones, relayer transactions whose IbcRelay fails non-fatally after state-changing actions and stay in the block with an error code) must leave an empty full-state diff (verifiable, non-verifiable, ephemeral fees/deposits) and no events; successes must consume exactly the signer's current nonce; no tx id or (signer, nonce) succeeds twice in a history."),
 "C04": _chain("C04", "bridge", "Every Deposit appearing in the block's deposit cache is matched, inside the same transaction diff, with an equal credit of the named bridge in the bridge's asset; failed executions add no deposit or deposit event; (bridge, withdrawal event id) pairs are honoured at most once per history across unlock / bridge transfer / ICS-20 withdrawal, with reuse attempts generated on purpose; bridge transfers whose destination is the source bridge itself and self-signing bridges (fees and locks paid from the same balance) are part of the workload."),
 "C05": _chain("C05", "paths", "Three nodes and a lab node execute every decided block along independently drawn legal ABCI paths (proposer, validator after abandoned honest or corrupted rounds, syncer, restarted node); post-Aspen blocks carry signed oracle vote extensions (validator set with CometBFT's two-height lag, more than 2/3 committing) next to currency-pair removals and additions; some decided blocks are a twin of a node's own earlier proposal differing in exactly one header field (time, proposer, next-validators hash, evidence list), some carry misbehaviour evidence, and at each upgrade height one transaction per action kind is checked before the upgrade and executed in the upgrade block (by the proposer from its mempool, by the others from the block bytes); FinalizeBlock response digests, app hashes and full-state digests must agree on every height and no legal call may fail or panic on one path only."),
 "C18": _chain("C18", "ibc", "Outgoing withdrawals (trace and ibc/ spelling, plain and bridge senders) and incoming packets / acks / time-outs are driven through the real Ics20Transfer handlers; an independent ICS-20 ledger per (channel, sequencer-origin asset) must equal the escrow keys after every step, error-acknowledged receives must change nothing but the ack record, successful ones exactly what the source/sink rule says (incl. the bridge deposit).", note="packets are driven at the penumbra AppHandler boundary (no ICS-23 proof verification); each outgoing packet is resolved at most once, as IBC core guarantees"),
 "C14": _chain("C14", "validators", "Sequences of validator add / update / remove actions (several per block, repeated keys, removals on 1-3 validator sets) across pre-Aspen blocks, the Aspen upgrade block and post-Aspen blocks; every FinalizeBlock.validator_updates batch is folded over the genesis set with CometBFT's rules and compared after every block with the set and count the application stores (both storage formats read through the crate's own getters on the committed snapshot). 10 % of the decided blocks carry misbehaviour evidence naming one or two validators; from the first such block of a history on (excluded by the property) only 'stored count == size of the stored set' is judged."),
 "C06": _chain("C06", "proposals", "Every PrepareProposal output (mempools filled around both limits, all max_tx_bytes classes incl. one straddling the size of the signed extended commit, mixed action groups, dependent nonces, failing transactions, relayer transactions that fail non-fatally and carry 100-250 kB of rollup data) is checked for byte limit, sequenced-data limit, group order, acceptance by every node that processes it and fatal-error-free execution; a catalogue of ~20 single mutations (commitments, typed data items, undecodable / truncated / re-signed / duplicated / reordered / replayed / unaffordable transactions, sequenced data over the limit by one byte with a control exactly at the limit) is judged by the real ProcessProposal of a node at the same state."),
 "C15": dict(engine="chainsim", cat="exploration", ref="DESIGN.md §5 C15",
   technique="runtime monitoring: real ProposalHandler::validate_proposal / prepare_proposal / price aggregation driven with harness-signed vote extensions on a post-Aspen ChainSim state; offline exact-integer oracle over the recorded cases",
   text="Every voting-power vector over a 9-value alphabet for <=3 (quick) / <=4 (thorough) validators x every signer subset, each with the all-valid extended commit and rotating defects (forged / mis-attributed / wrong height, round or chain signatures, missing signature, oversized / malformed / unknown-pair extensions, duplicated voter, outsider, nil vote with extension, five kinds of last-commit mismatch), plus the empty extended commit; accepted commits have their published prices compared with the min/max of the reported prices (signed 128-bit extremes, negative values, even and odd reporter counts).",
   note="validity of signatures and last-commit agreement is known by construction; the ABCI wrapping (DataItem encoding, proposed_last_commit plumbing, size fallback) is exercised with signed extensions by the ChainSim profiles paths / proposals (C05, C06)"),
 "C07": _chain("C07", "rollups", "After every commit the real GetSequencerBlock / GetFilteredSequencerBlock handlers are called (every subset of the block's rollup ids plus an absent id for <=4 rollups, sampled above) and decoded with the public checked types (requests in ascending, reversed, shuffled order and with repeated ids; busy blocks with 10-140 submissions interleaved over 2-4 rollups); the block is split for Celestia and audited conductor-style with an independent RFC 6962 root; the oracle compares every view with the block's rollup submissions in execution order followed by its deposits (from the lab's diffs), and a catalogue of 19 single-element tamperings of the served / published artefacts must be rejected by the receiver-side verification."),
})

CHECKS["C13"] = dict(engine="mempool-walk", cat="exploration", ref="DESIGN.md §5 C13",
   technique="runtime monitoring: model-based random operation sequences and a concurrent stress tier (CheckTx tasks, status / builder-queue readers and the consensus side on a multi-thread runtime, stale snapshots, identical bytes racing, seeded jitter) on the real Mempool, with an in-crate structure walker (private pending/parked maps read under the mempool's own lock at quiescent points) and a status sweep; offline invariant oracle over the op log, observed interleavings counted",
   text="Thousands of operations (inserts with gaps/duplicates/stale nonces, invalid-removals, block inclusions, balance and nonce moves, fee re-costing, expiry with a short TTL, bursts of >15 ready transactions followed by a drained balance) on 2-6 accounts x 3 assets; after every operation the private structure and the status of every accepted id are recorded and the oracle checks exactly-one-place, consecutive ready nonces, affordability against the balances shown, build order, stale-nonce removal and parked limits. Concurrent tier: 3-6 CheckTx tasks (15 % of transactions submitted by two tasks at once, snapshots published before or after maintenance), 1-3 readers and block inclusion / invalid-removal / balance and nonce moves / maintenance run concurrently per round; every call and return is sequence-numbered, readers' status and builder-queue observations are judged on line, and at the end of each round (all tasks joined) the same structure oracle runs after a final maintenance. A guarded hook in the mempool records the order of its lock sections (insert / maintenance / harness walk); the pools are walked after every concurrent maintenance run and a transaction whose insert section precedes a maintenance section that was shown a higher chain nonce must be absent from the following walks (one-shot accounts whose only transaction races the marking of its nonce as used provide the cases).",
   note="costs are those reported by CheckedTransaction::total_costs; callers respect the documented contract that shown nonces never decrease; cache bounds are not crossed so eviction cannot explain a missing status")

CHECKS["C16"] = dict(engine="composer-bundles", cat="exploration", ref="DESIGN.md §5 C16",
   technique="runtime monitoring: exhaustive short op words + random long ones on the real BundleFactory, recorded call results and emitted payload ids; offline exactly-once / order / size oracle with a small sequential queue model",
   text="All words of length <=5 (quick) / <=6 (thorough) over 9 operations (pushes in 6 size classes around the maximum, pop finished, take-and-drop the next-finished handle, timer pop) for finished-queue capacities 0-2, plus random words up to length 40 for capacities 0-4; the oracle checks that accepted payload ids are emitted exactly once in acceptance order, bundle sizes recomputed from the emitted actions never exceed the maximum, and refusals are justified by size or a full queue.",
   note="sizes are prost encoded lengths of the emitted actions; the composer's async executor loop around the factory is not driven here")

CHECKS["C12"] = dict(engine="relayer-batching", cat="exploration", ref="DESIGN.md §5 C12",
   technique="runtime monitoring: real NextSubmission driven like BlobSubmitter::run with block streams around the 1 MB bound and rollup filters; every taken submission decoded conductor-style (brotli, protobuf lists, checked types, proof audit with an independent RFC 6962 root) and compared offline with the blocks that went in",
   text="Block streams in four size profiles (tiny / around half / around full incl. oversized / mixed, incompressible payloads, 0-6 rollups, all-or-subset filters) go through try_add / Full push-back / take(), with take() futures dropped un-polled; the oracle checks exactly-once, increasing heights, reported greatest height == content, per-rollup data and proofs, untouched metadata under filters, and the payload bound recomputed from the blobs.",
   note="Celestia submission and the state file are C11's subject; compressed sizes rely on incompressible random payloads")

CHECKS["C10"] = dict(engine="conductor-executor", cat="exploration", ref="DESIGN.md §5 C10",
   technique="runtime monitoring: the real conductor executor event loop on harness-owned channels, driven with exhaustive short and random long soft/firm delivery words against a real tonic ExecutionService on loopback that records every RPC; offline order / exactly-once / parent-chain / commitment oracle over the RPC log",
   text="All delivery words of length <=4 (quick) / <=5 (thorough) over soft and firm blocks of three heights for each commit level, plus random longer words with duplicates, stale and skipped heights, sessions that start with soft ahead of firm, look-ahead 1-5 and delayed rollup responses; the oracle checks one ExecuteBlock per height in gap-free increasing order, each on the previous height's returned block, monotone commitments with firm <= soft, and firm commitments naming the block executed from the same height.",
   note="the sequencer and Celestia reader tasks are replaced by the harness delivering into the executor's channels; quiescence between deliveries is RPC inactivity with a bounded wait; watchdog words are counted and make the run inconclusive beyond 2%")

CHECKS["C17"] = dict(engine="vh-wire", cat="exploration", ref="DESIGN.md §5 C17",
   technique="runtime monitoring / sanitizer-style: panic monitor + round-trip, received-message-equivalence and re-verification oracle over structure-aware protobuf mutants of valid encodings (incl. bodies mutated and signed again) fed to the public astria-core decoders and, in-crate, to the sequencer's real CheckTx on a live chain state; refusal errors are rendered under the monitor; thorough tier adds valgrind memcheck on the release binary",
   text="Valid transactions (21 bodies, 16 action kinds; also as bodies that are mutated and then signed again so that the mutant passes signature verification, and with the envelope's type URL rewritten), sequencer blocks, filtered blocks, Celestia metadata and rollup-data entries and brotli blobs are built with the crate's own builders and mutated at every nesting level (field deletion / duplication / reordering, varints to boundary values and +-1, corrupted length prefixes, 32-byte elements appended or removed, byte flips, truncation at every offset, splices, random bytes; blobs also re-compressed after mutation); every decoder entry point runs under a panic monitor, accepted values must re-encode to the same bytes, their derived artefacts must decode again, and every inclusion proof an accepted full or filtered block carries (per rollup, rollup-transactions root, rollup-ids root) must verify again against the accepted header with the library's own Proof::verify (an independent RFC 9162 verifier runs next to it; its disagreements are reported as observations). Accepted transactions must re-encode to the message that was received; every refusal error is rendered (Display, Debug, source chain) under the panic monitor; in-crate, the transactions a ChainSim history produced are mutated whole and as re-signed bodies and fed to the real check_tx (CheckedTransaction::new, cost calculation, mempool insertion) against the committed state.",
   note="Celestia blob fetch wrappers are exercised by the C09 pipeline with junk blobs; Miri is not used here (ed25519 and brotli are too slow under the interpreter for a useful slice)")

CHECKS["C11"] = dict(engine="relayer-crash", cat="fault_enumeration", ref="DESIGN.md §5 C11",
   technique="runtime monitoring with fault injection: the real BlobSubmitter, submission-state file and CelestiaClient run against a scripted fake Celestia app (tonic on loopback, virtual time); the process is stopped at enumerated RPC arrivals / replies and future-poll indices and restarted from the state file; offline oracle over the recorded history of included BlobTxs and state-file observations",
   text="Per base scenario (4-9 heights, paced or burst block arrival, big blocks, per-broadcast fates: fast / slow inclusion, eviction, CheckTx codes 11/13/19/32 with sequence-number enforcement, gRPC errors and withheld replies with the tx processed or not, failing GetTx polls) a baseline run sizes the crash space; then one run per RPC event of the first session (arrival and reply separately) and per sampled poll index of the submitter future (every suspension point, including between temp-file write and rename), with a second stop inside recovery, downtimes that age a prepared state past its confirmation window and truncated temp files. The oracle checks after every inclusion that confirmed heights are gap-free, at every observation that the state file parses and only records covered heights, and at every restart that the feed resumes without skipping.",
   note="a stop is the drop of the submitter future at a suspension point (blocking file ops already issued complete); the sequencer reader / BlockStream is replaced by the harness seeding from last_completed_sequencer_height()+1 as Relayer::run does; rename atomicity is assumed; power loss (no fsync) is out of scope; thorough covers every RPC event of the first session, polls are sampled")

def main():
    hooks = subprocess.run(["git", "-C", "/repo", "log", "--format=%h", "--grep=^verif hooks:"], capture_output=True, text=True).stdout.split()
    m = {
     "version": 1,
     "setup_cmd": "./setup.sh",
     "hooks": {
       "guard": "cargo feature `verif` (off by default) AND cfg(test) for the harness module declarations; cargo feature `verif` alone for the mempool lock-section hook (crates/astria-sequencer/src/mempool/mod.rs: mod verif_hook + three record() calls)",
       "enable": "cargo test --offline --no-run --lib -p <crate> --features verif (CARGO_TARGET_DIR=/verif/target); harness sources are pulled in by #[path=\"/verif/harness/...\"] mod verif;",
       "baseline_off_cmd": "cd /repo && cargo nextest run --workspace --no-fail-fast --test-threads 8 --offline || cargo test --workspace --no-fail-fast --offline",
       "source_commits": hooks,
       "add_only": True,
     },
     "engines": [
       {"name": "vh-merkle", "path": "harness/ext/vh-merkle", "serves_properties": ["C08"], "kind_free_text": "external harness binary on the public astria-merkle API + Miri"},
       {"name": "conductor-celestia", "path": "harness/conductor/celestia.rs", "serves_properties": ["C09"], "kind_free_text": "in-crate test-only child module of astria_conductor::celestia (feature verif)"},
       {"name": "mempool-walk", "path": "harness/seq/mempool.rs", "serves_properties": ["C13"], "kind_free_text": "in-crate test-only child module of astria_sequencer::mempool (feature verif)"},
       {"name": "composer-bundles", "path": "harness/composer/executor.rs", "serves_properties": ["C16"], "kind_free_text": "in-crate test-only child module of astria_composer::executor (feature verif)"},
       {"name": "relayer-batching", "path": "harness/relayer/write.rs", "serves_properties": ["C12"], "kind_free_text": "in-crate test-only child module of astria_sequencer_relayer::relayer::write (feature verif)"},
       {"name": "relayer-crash", "path": "harness/relayer/crash.rs", "serves_properties": ["C11"], "kind_free_text": "in-crate test-only module (child of the relayer-batching harness module) driving BlobSubmitter with crash injection (feature verif)"},
       {"name": "conductor-executor", "path": "harness/conductor/executor.rs", "serves_properties": ["C10"], "kind_free_text": "in-crate test-only child module of astria_conductor::executor (feature verif)"},
       {"name": "vh-wire", "path": "harness/ext/vh-wire", "serves_properties": ["C17"], "kind_free_text": "external harness binary on the public astria-core decoders"},
       {"name": "chainsim", "path": "harness/seq/app", "serves_properties": ["C01","C02","C03","C04","C05","C06","C07","C14","C15","C18"], "kind_free_text": "in-crate multi-node ABCI driver inside astria_sequencer::app (feature verif) + offline Python oracles"},
     ],
     "checks": [],
     "notes": "Technique family: runtime monitoring and sanitizers. ./check <ID> exits 0 held / 1 VIOLATION / 2 inconclusive (never a VIOLATION line). known_findings.json lists genuine defects (known/fixed).",
     "not_applicable": [],
    }
    for pid in ALL:
        c = CHECKS.get(pid)
        if not c:
            m["not_applicable"].append({"property_id": pid, "reason": "not claimed yet: the runtime monitor for this property (DESIGN.md §5) is not built/validated at this commit; the technique applies, the property is simply not claimed until its check is silent on the unchanged tree and fires on planted breaks"})
            continue
        m["checks"].append({
          "property_id": pid,
          "quick_cmd": "./check %s --tier quick" % pid,
          "thorough_cmd": "./check %s --tier thorough" % pid,
          "evidence_file": "/verif/evidence/%s.json" % pid,
          "replay_cmd_template": "./check %s --replay {path}" % pid,
          "engine": c["engine"],
          "level_claimed": {"category": c["cat"], "text": c["text"], "design_ref": c["ref"]},
          "level_note": c["note"],
          "technique": c["technique"],
        })
    with open(os.path.join(HERE, "MANIFEST.json"), "w") as f:
        json.dump(m, f, indent=1)
        f.write("\n")
    try:
        import jsonschema
        jsonschema.validate(m, json.load(open("/root/.vp/MANIFEST.schema.json")))
        print("MANIFEST.json valid;", len(m["checks"]), "checks")
    except ImportError:
        print("written (jsonschema not available to validate)")

if __name__ == "__main__":
    main()
