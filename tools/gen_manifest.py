#!/usr/bin/env python3
"""Writes /verif/MANIFEST.json from the table below (keeps it schema-valid as checks are added)."""
import json, os, subprocess
HERE = os.path.dirname(os.path.dirname(os.path.abspath(__file__)))
ALL = ["C%02d" % i for i in range(1, 19)]

CHECKS = {
 "C08": dict(engine="vh-merkle", cat="exploration", ref="DESIGN.md §5 C08",
   technique="runtime monitoring: differential oracle (independent RFC 6962 reference) + panic monitor over exhaustive small trees, sampled large trees and adversarial proof triples; Miri interpreter on a slice",
   text="Runs the real astria-merkle API on every tree size 0..=64 x every leaf index x every byte position of leaf/path/root (one flipped bit each), sampled sizes up to 2^16 and thousands of decodable-but-inconsistent (path,index,size) triples; an independent RFC 6962 MTH/PATH reference and a panic monitor judge each execution; a slice is repeated under Miri. Held = no refutation on the executions produced.",
   note="trusts sha2 and the 15-line RFC 6962 reference in the harness; universality over all sizes/contents is sampled, exhaustive only for <=64 leaves (one bit per byte position)"),
 "C09": dict(engine="conductor-celestia", cat="exploration", ref="DESIGN.md §5 C09",
   technique="runtime monitoring: real ensure_commit_has_quorum and real decode->verify->reconstruct pipeline driven with harness-signed commits and hostile blobs; offline exact-integer oracle over the recorded event log",
   text="Enumerates every voting-power vector over a 10-value alphabet for <=3 (quick) / <=4 (thorough) validators x every signer subset x signature defects (forged, duplicated, nil, wrong chain/height/round/block, outsider) against the real quorum check, and runs the real Celestia blob pipeline against a loopback CometBFT mock with honest and hostile metadata/rollup blobs; the Python oracle recomputes 3c>2t over distinct validly signing validators and the expected accepted set. Held = no accepted commit/metadata/rollup data outside the oracle on the executions produced.",
   note="the harness signs, so signature validity is known by construction; ed25519 and the tendermint types are trusted; CometBFT RPC is mocked on loopback; larger validator sets are sampled"),
}

def main():
    hooks = subprocess.run(["git", "-C", "/repo", "log", "--format=%h", "--grep=^verif hooks:"], capture_output=True, text=True).stdout.split()
    m = {
     "version": 1,
     "setup_cmd": "./setup.sh",
     "hooks": {
       "guard": "cargo feature `verif` (off by default) AND cfg(test)",
       "enable": "cargo test --offline --no-run --lib -p <crate> --features verif (CARGO_TARGET_DIR=/verif/target); harness sources are pulled in by #[path=\"/verif/harness/...\"] mod verif;",
       "baseline_off_cmd": "cd /repo && cargo nextest run --workspace --no-fail-fast --test-threads 8 --offline || cargo test --workspace --no-fail-fast --offline",
       "source_commits": hooks,
       "add_only": True,
     },
     "engines": [
       {"name": "vh-merkle", "path": "harness/ext/vh-merkle", "serves_properties": ["C08"], "kind_free_text": "external harness binary on the public astria-merkle API + Miri"},
       {"name": "conductor-celestia", "path": "harness/conductor/celestia.rs", "serves_properties": ["C09"], "kind_free_text": "in-crate test-only child module of astria_conductor::celestia (feature verif)"},
       {"name": "chainsim", "path": "harness/seq/app", "serves_properties": ["C01","C02","C03","C04","C05","C06","C07","C14","C15","C18"], "kind_free_text": "in-crate multi-node ABCI driver inside astria_sequencer::app (feature verif) + offline Python oracles"},
     ],
     "checks": [],
     "notes": "Technique family: runtime monitoring and sanitizers. ./check <ID> exits 0 held / 1 VIOLATION / 2 inconclusive (never a VIOLATION line). known_findings.json lists genuine defects (known/fixed).",
     "not_applicable": [],
    }
    for pid in ALL:
        c = CHECKS.get(pid)
        if not c:
            m["not_applicable"].append({"property_id": pid, "reason": "not claimed yet: the runtime monitor for this property (DESIGN.md §5) is not built/validated at this commit; the technique applies, the property is simply not claimed until its check is silent on the unchanged tree and fires on planted breaks"})
            continue
        m["checks"].append({
          "property_id": pid,
          "quick_cmd": "./check %s --tier quick" % pid,
          "thorough_cmd": "./check %s --tier thorough" % pid,
          "evidence_file": "/verif/evidence/%s.json" % pid,
          "replay_cmd_template": "./check %s --replay {path}" % pid,
          "engine": c["engine"],
          "level_claimed": {"category": c["cat"], "text": c["text"], "design_ref": c["ref"]},
          "level_note": c["note"],
          "technique": c["technique"],
        })
    with open(os.path.join(HERE, "MANIFEST.json"), "w") as f:
        json.dump(m, f, indent=1)
        f.write("\n")
    try:
        import jsonschema
        jsonschema.validate(m, json.load(open("/root/.vp/MANIFEST.schema.json")))
        print("MANIFEST.json valid;", len(m["checks"]), "checks")
    except ImportError:
        print("written (jsonschema not available to validate)")

if __name__ == "__main__":
    main()
