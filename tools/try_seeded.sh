#!/bin/bash
# usage: tools/try_seeded.sh <seeded dir name> <property> [tier]   -> applies the patch to /repo, runs the check, reverts
d=/verif/seeded/$1; prop=$2; tier=${3:-quick}
cd /repo || exit 9
if ! git diff --quiet; then echo "/repo has uncommitted changes"; exit 9; fi
git apply $d/patch.diff || { echo "PATCH DOES NOT APPLY"; exit 8; }
cd /verif && ./check $prop --tier $tier > /tmp/seeded-$1-$prop.log 2>&1; rc=$?
git -C /repo checkout -- .
echo "seeded $1 property $prop rc=$rc"; grep -E "^VIOLATION|INCONCLUSIVE|HELD|violated" /tmp/seeded-$1-$prop.log | cut -c1-220 | head -6
