#!/bin/bash
# usage: tools/confirm_seeded.sh <out dir with patch.diff demo.diff meta.json> <crate> <demo test filter> [--lib|--test <name>|""]
# Independent confirmation in a scratch worktree (/tmp/seed/confirm-wt) with its own target dir:
#   1. demo passes on the unchanged tree   2. demo fails with patch.diff   3. the crate's existing suite passes with patch.diff (demo removed)
d=$1; crate=$2; filter=$3; scope=${4:---lib}
wt=${CONFIRM_WT:-/tmp/seed/confirm-wt}; export CARGO_TARGET_DIR=${CONFIRM_TG:-/tmp/seed/tgc} CARGO_NET_OFFLINE=true; unset RUSTFLAGS
cd $wt || exit 9
git checkout -q -- . ; git clean -fdq crates
git -C $wt checkout -q --detach $(git -C /repo rev-parse HEAD)
t() { find crates -name '*.rs' -path '*/src/*' -exec touch {} + ; find crates -name '*.rs' -path '*/tests/*' -exec touch {} + ; }
log=$d/confirm.log; : > $log
git apply $d/demo.diff || { echo "DEMO DOES NOT APPLY" | tee -a $log; exit 8; }
echo "== demo without patch (expect pass)" >> $log; t
cargo test --offline -p $crate $scope -- $filter 2>&1 | grep -E "^test |test result|error(\[|:)" | head -20 >> $log
git apply $d/patch.diff || { echo "PATCH DOES NOT APPLY" | tee -a $log; exit 8; }
echo "== demo with patch (expect fail)" >> $log; t
cargo test --offline -p $crate $scope -- $filter 2>&1 | grep -E "^test |test result|error(\[|:)" | head -20 >> $log
git apply -R $d/demo.diff
echo "== existing suite of $crate with patch, demo removed (expect pass; nextest, 2 retries for the known flaky black-box tests)" >> $log; t
cargo nextest run --offline -p $crate --retries 2 --no-fail-fast 2>&1 | grep -E "Summary|FAIL|FLAKY|TRY .* FAIL|error(\[|:)" | sort | uniq -c | head -30 >> $log
git checkout -q -- . ; git clean -fdq crates
echo "== done" >> $log
cat $log
