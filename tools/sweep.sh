#!/bin/bash
# usage: tools/sweep.sh <tier> <seed>...   -> runs every claimed check at the given seeds, one line per run in work/sweep-<tier>.log
tier=$1; shift
cd /verif || exit 9
log=/verif/work/sweep-$tier.log
for seed in "$@"; do
  for id in C01 C02 C03 C04 C05 C06 C07 C08 C09 C10 C11 C12 C13 C14 C15 C16 C17 C18; do
    out=$(./check $id --tier $tier --seed $seed 2>&1); rc=$?
    echo "$(date +%H:%M:%S) $id seed=$seed rc=$rc $(echo "$out" | grep -E '^(HELD|VIOLATION|INCONCLUSIVE|KNOWN-FINDING)' | cut -c1-160 | tr '\n' ';')" >> $log
  done
done
echo "sweep $tier $* finished" >> $log
